"""worker of the C07 check: a FRESH interpreter per case, started with its own PYTHONHASHSEED; reads JSON cases (one per
line) on stdin, scrambles the global generators, runs the simulation(s) and answers with the digest of each."""
import json
import os
import random
import sys
import warnings

sys.path.insert(0, os.path.dirname(os.path.dirname(os.path.abspath(__file__))))
warnings.simplefilter("ignore")

from pbt import common  # noqa: E402,F401
from pbt.common import PamsCrash  # noqa: E402
from pbt.digest import digest_case  # noqa: E402

import numpy as np  # noqa: E402


def main():
    """stdin: one JSON document {"runs": [case, ...]}; stdout: one JSON list with the digest record of every run, in order.
    The global generators are scrambled (differently per salt and per position) before every run."""
    salt = int(os.environ.get("C07_SALT", "0"))
    doc = json.loads(sys.stdin.read())
    answers = []
    from pbt.simharness import RecLogger
    shared_logger = RecLogger()  # one logger object for every run of this process
    for n, case in enumerate(doc["runs"], 1):
        random.seed(salt * 7919 + n)
        np.random.seed((salt * 104729 + n) % (2**32))
        for _ in range(17 + salt % 50 + 1000 * (n > 1)):
            random.random()
            np.random.random()
        try:
            out = digest_case(case, logger=shared_logger)
        except PamsCrash as c:
            shared_logger = RecLogger()  # an aborted run leaves its undelivered records in the logger: start the next run with a clean one
            out = {"crash": f"{c.innermost_pams_file()}:{c.exc_type}", "digest": f"crash:{c.innermost_pams_file()}:{c.exc_type}:{c.exc_msg}",
                   "settings_unchanged": True, "classes": [], "n_logs": 0, "records": 0, "tb": c.tb_text}
        except Exception as e:  # noqa: BLE001
            out = {"error": f"{type(e).__name__}: {e}"}
        answers.append(out)
    sys.stdout.write(json.dumps(answers) + "\n")
    sys.stdout.flush()


if __name__ == "__main__":
    main()
