"""persistent worker of the C07 check: started with its own PYTHONHASHSEED, reads one JSON case per line on stdin,
scrambles the global generators, runs the simulation and answers with the digest."""
import json
import os
import random
import sys
import warnings

sys.path.insert(0, os.path.dirname(os.path.dirname(os.path.abspath(__file__))))
warnings.simplefilter("ignore")

from pbt import common  # noqa: E402,F401
from pbt.common import PamsCrash  # noqa: E402
from pbt.digest import digest_case  # noqa: E402

import numpy as np  # noqa: E402


def main():
    salt = int(os.environ.get("C07_SALT", "0"))
    n = 0
    for line in sys.stdin:
        line = line.strip()
        if not line:
            continue
        case = json.loads(line)
        n += 1
        random.seed(salt * 7919 + n)
        np.random.seed((salt * 104729 + n) % (2**32))
        for _ in range(17 + salt):
            random.random()
        try:
            out = digest_case(case)
        except PamsCrash as c:
            out = {"crash": f"{c.innermost_pams_file()}:{c.exc_type}", "digest": f"crash:{c.innermost_pams_file()}:{c.exc_type}:{c.exc_msg}"}
        except Exception as e:  # noqa: BLE001
            out = {"error": f"{type(e).__name__}: {e}"}
        sys.stdout.write(json.dumps(out) + "\n")
        sys.stdout.flush()


if __name__ == "__main__":
    main()
