"""Oracles of the kind-C (simulation harness) properties: pure functions of (case, RunResult)."""
import collections
import math
from fractions import Fraction
from typing import Any, Dict, List, Optional, Tuple

from .common import Violation
from .simharness import (CancelLog, ExecutionLog, ExpirationLog, IndexMarket, MarketStepBeginLog, MarketStepEndLog, Order,
                         Cancel, OrderLog, RunResult, SessionBeginLog, SessionEndLog, SimulationBeginLog, SimulationEndLog)


class Analysis:
    """derived views of one trace, shared by the oracles."""

    def __init__(self, case: Dict[str, Any], res: RunResult):
        self.case = case
        self.cfg = case["config"]
        self.res = res
        self.sim = res.runner.simulator
        self.items = res.trace.items
        sim = self.sim
        self.sess_cfg = self.cfg["simulation"]["sessions"]
        self.normal = [a.agent_id for a in sim.normal_frequency_agents]
        self.hft = [a.agent_id for a in sim.high_frequency_agents]
        self.writes: List[Tuple[int, Any]] = [(i, kw["log"]) for i, (k, kw) in enumerate(self.items) if k == "log.write"]
        self.bulk = [(i, kw["log"]) for i, (k, kw) in enumerate(self.items) if k == "log.bulk"]
        self.order_logs = [(i, l) for i, l in self.writes if isinstance(l, OrderLog)]
        self.cancel_logs = [(i, l) for i, l in self.writes if isinstance(l, CancelLog)]
        self.exec_logs = [(i, l) for i, l in self.writes if isinstance(l, ExecutionLog)]
        self.expire_logs = [(i, l) for i, l in self.writes if isinstance(l, ExpirationLog)]
        self.no_logger = not any(k.startswith("log.") for k, _ in self.items)
        if self.no_logger:
            # the run had no logger: the records the agents received are the only view of acceptances and fills
            self.order_logs = [(i, kw["log"]) for i, (k, kw) in enumerate(self.items) if k == "cb.submitted"]
            self.cancel_logs = [(i, kw["log"]) for i, (k, kw) in enumerate(self.items) if k == "cb.canceled"]
            self.exec_logs = [(i, kw["log"]) for i, (k, kw) in enumerate(self.items) if k == "cb.executed"]
        # distinct fills by identity, in order of first appearance (ground truth of "what was filled")
        seen = set()
        self.fills: List[Tuple[int, ExecutionLog]] = []
        for i, l in self.exec_logs + self.bulk:
            if isinstance(l, ExecutionLog) and id(l) not in seen:
                seen.add(id(l))
                self.fills.append((i, l))
        self.fills.sort(key=lambda x: x[0])
        # consultations and returned objects
        self.consults = [(i, kw) for i, (k, kw) in enumerate(self.items) if k == "consult"]
        self.returned_orders: List[Tuple[Order, Dict[str, Any], int]] = []
        self.returned_cancels: List[Tuple[Cancel, int]] = []
        for i, kw in self.consults:
            for o, snap in zip(kw["raw"], kw["snap"]):
                if isinstance(o, Order):
                    self.returned_orders.append((o, snap, i))
                else:
                    self.returned_cancels.append((o, i))
        # steps: split at the step-begin record of the first market
        self.steps: List[Dict[str, Any]] = []
        cur = None
        m0 = sim.markets[0]
        for i, (k, kw) in enumerate(self.items):
            # (type, market and session are the values recorded when the record was DELIVERED: a logger may keep records)
            if k == "log.direct" and kw["log_type"] == "MarketStepBeginLog" and kw["market_id"] == m0.market_id:
                cur = {"session": sim.sessions[kw["session_id"]], "t": kw["times"][0], "times": kw["times"], "begin": i, "items": [],
                       "sess_exec": kw["sess_exec"], "running": kw["running"]}
                self.steps.append(cur)
            elif cur is not None:
                cur["items"].append((i, k, kw))
        self.total_steps = sum(s["iterationSteps"] for s in self.sess_cfg)
        self.init_hold = res.init_hold

    def rounds(self) -> List[List[Tuple[int, ExecutionLog]]]:
        """fills grouped by matching round: a round ends at the next OrderLog / CancelLog / step record."""
        out: List[List[Tuple[int, ExecutionLog]]] = []
        cur: List[Tuple[int, ExecutionLog]] = []
        fill_ids = {id(l) for _, l in self.fills}
        seen = set()
        for i, (k, kw) in enumerate(self.items):
            if k == "log.write" and isinstance(kw["log"], ExecutionLog) and id(kw["log"]) in fill_ids and id(kw["log"]) not in seen:
                seen.add(id(kw["log"]))
                cur.append((i, kw["log"]))
            elif (k == "log.write" and isinstance(kw["log"], (OrderLog, CancelLog))) or k in ("log.direct", "cb.submitted", "cb.canceled"):
                # an acceptance (witnessed by the logger or by the owner's callback) or a step record ends the round
                if cur:
                    out.append(cur)
                    cur = []
        if cur:
            out.append(cur)
        return out


def close(a: float, b, rel=1e-9, abs_=1e-6) -> bool:
    return math.isclose(a, float(b), rel_tol=rel, abs_tol=abs_)


# ---------------------------------------------------------------------------------------------------------------
# C05


def fold_holdings(A: Analysis):
    """yield (trace index, model) after folding each fill; model[a] = [Fraction cash, {market: shares}]"""
    model = {a: [Fraction(c), dict(v)] for a, (c, v) in A.init_hold.items()}
    return model


def check_c05(A: Analysis) -> Dict[str, Any]:
    sim = A.sim
    model = {a: [Fraction(c), dict(v)] for a, (c, v) in A.init_hold.items()}
    fill_at = {i: l for i, l in A.fills}
    n_obs = 0
    self_trades = 0
    peak: Dict[int, float] = {}
    for i, (k, kw) in enumerate(A.items):
        if i in fill_at:
            l = fill_at[i]
            if l.buy_agent_id == l.sell_agent_id:
                self_trades += 1
            amount = Fraction(l.price) * l.volume
            model[l.buy_agent_id][0] -= amount
            model[l.sell_agent_id][0] += amount
            for ag in (l.buy_agent_id, l.sell_agent_id):
                # (rounding is relative to the largest amount ever added to this balance, not to what is left of it)
                peak[ag] = max(peak.get(ag, 1.0), abs(float(amount)), abs(float(model[ag][0])))
            for ag, sign in ((l.buy_agent_id, 1), (l.sell_agent_id, -1)):
                if l.market_id not in model[ag][1]:
                    raise Violation("C05.fill_on_inaccessible_market", f"agent {ag} traded market {l.market_id} it holds no position slot for")
                model[ag][1][l.market_id] += sign * l.volume
        if k in ("cb.executed", "log.direct"):
            n_obs += 1
            for a, (c, v) in kw["hold"].items():
                if v != model[a][1]:
                    raise Violation("C05.shares_equal_endowment_plus_fills",
                                    f"at trace item {i} ({k}) agent {a} holds {v}, endowment folded with the fills so far gives {model[a][1]}")
                if not close(c, model[a][0], abs_=1e-6 + 1e-9 * peak.get(a, 1.0)):
                    raise Violation("C05.cash_equal_endowment_plus_fills",
                                    f"at trace item {i} ({k}) agent {a} has cash {c!r}, endowment folded with the fills so far gives {float(model[a][0])!r}")
    for ag in sim.agents:
        if dict(ag.asset_volumes) != model[ag.agent_id][1] or not close(ag.get_cash_amount(), model[ag.agent_id][0], abs_=1e-6 + 1e-9 * peak.get(ag.agent_id, 1.0)):
            raise Violation("C05.final_holdings", f"agent {ag.agent_id} ends with {ag.cash_amount!r} {ag.asset_volumes}, fold gives "
                                                  f"{float(model[ag.agent_id][0])!r} {model[ag.agent_id][1]}")
        for mid in ag.asset_volumes:
            if ag.get_asset_volume(mid) != model[ag.agent_id][1][mid]:
                raise Violation("C05.getter", "get_asset_volume disagrees")
    for m in sim.markets:
        tot0 = sum(v.get(m.market_id, 0) for c, v in A.init_hold.values())
        tot1 = sum(a.asset_volumes.get(m.market_id, 0) for a in sim.agents)
        if tot0 != tot1:
            raise Violation("C05.shares_conserved", f"market {m.market_id}: total shares {tot0} -> {tot1}")
    cash0 = math.fsum(c for c, v in A.init_hold.values())
    cash1 = math.fsum(a.cash_amount for a in sim.agents)
    # "constant up to floating-point rounding": every fill adds and subtracts price x volume in double precision, so the error is
    # relative to the amounts moved and to the balances they were added to (runaway prices move 1e18 and more)
    scale = max([1.0, abs(cash0)] + [abs(float(l.price) * l.volume) for _, l in A.fills] + [abs(a.cash_amount) for a in sim.agents])
    if not math.isclose(cash0, cash1, rel_tol=0.0, abs_tol=1e-9 * scale * max(1, len(A.fills)) + 1e-6):
        raise Violation("C05.cash_conserved", f"total cash {cash0!r} -> {cash1!r}")
    rounds = A.rounds()
    traders = {a for _, l in A.fills for a in (l.buy_agent_id, l.sell_agent_id)}
    markets = {l.market_id for _, l in A.fills}
    return {"fills": len(A.fills), "self_trades": self_trades, "multi_fill_rounds": sum(1 for r in rounds if len(r) >= 2),
            "traders": len(traders), "markets_traded": len(markets), "observations": n_obs}


# ---------------------------------------------------------------------------------------------------------------
# C10


def check_c10(A: Analysis) -> Dict[str, Any]:
    sim = A.sim
    items = A.items
    if A.bulk:
        # bulk_write is a legitimate channel; records delivered through it count like written ones
        pass
    # all records delivered to the logger, in delivery order
    delivered = [(i, kw["log"]) for i, (k, kw) in enumerate(items) if k in ("log.write", "log.bulk")]
    d_orders = [(i, l) for i, l in delivered if isinstance(l, OrderLog)]
    d_cancels = [(i, l) for i, l in delivered if isinstance(l, CancelLog)]
    d_execs = [(i, l) for i, l in delivered if isinstance(l, ExecutionLog)]
    d_expire = [(i, l) for i, l in delivered if isinstance(l, ExpirationLog)]
    rewriting = any(isinstance(v, dict) and (v.get("class") == "OrderMistakeShock" or v.get("rewrite")) for v in A.cfg.values())
    accepted_volume = {}
    # (a) one OrderLog per accepted order, fields equal to the event's values
    by_key = collections.defaultdict(list)
    for i, l in d_orders:
        by_key[(l.market_id, l.order_id)].append((i, l))
    for o, snap, ci in A.returned_orders:
        if o.placed_at is None or o.order_id is None:
            raise Violation("C10.order_not_accepted", f"order returned by agent {o.agent_id} was never accepted: {snap}")
        recs = by_key.get((o.market_id, o.order_id), [])
        if len(recs) != 1:
            raise Violation("C10.order_record_count", f"{len(recs)} OrderLog records for order {o.order_id} on market {o.market_id} (expected exactly 1)")
        i, l = recs[0]
        # events may rewrite a pending order (order-mistake shock, price limit rule, user hooks): the record must carry the
        # values the order was ACCEPTED with.  Side, kind, price and lifetime do not change after acceptance, so the order
        # object is the ground truth for them; the accepted volume is what the agent returned unless a rewriting event is
        # configured, in which case it is checked below through "accepted = remaining + fills".
        want = (o.agent_id, o.is_buy, o.kind, snap["volume"] if not rewriting else l.volume, o.price, o.ttl, o.placed_at)
        got = (l.agent_id, l.is_buy, l.kind, l.volume, l.price, l.ttl, l.time)
        if want != got:
            raise Violation("C10.order_record_fields", f"OrderLog of order {o.order_id}/m{o.market_id} carries {got}, the order says {want}")
        if i < ci:
            raise Violation("C10.order_record_before_submission", "")
        accepted_volume[id(o)] = l.volume if rewriting else snap["volume"]
    if len(d_orders) != len(A.returned_orders):
        raise Violation("C10.order_record_extra", f"{len(d_orders)} OrderLog records for {len(A.returned_orders)} submitted orders")
    # (b) one CancelLog per accepted cancel, in order
    if len(d_cancels) != len(A.returned_cancels):
        raise Violation("C10.cancel_record_count", f"{len(d_cancels)} CancelLog records for {len(A.returned_cancels)} cancels")
    remaining = list(d_cancels)
    for c, ci in A.returned_cancels:
        hit = None
        for idx, (i, l) in enumerate(remaining):
            if (l.market_id, l.order_id, l.cancel_time) == (c.order.market_id, c.order.order_id, c.placed_at) and i > ci:
                hit = idx
                break
        if hit is None:
            raise Violation("C10.cancel_record_missing", f"no CancelLog for the cancel of order {c.order.order_id}/m{c.order.market_id} at {c.placed_at}")
        i, l = remaining.pop(hit)
        o = c.order
        if (l.agent_id, l.is_buy, l.kind, l.price, l.ttl, l.order_time) != (o.agent_id, o.is_buy, o.kind, o.price, o.ttl, o.placed_at):
            raise Violation("C10.cancel_record_fields", f"CancelLog of order {o.order_id}/m{o.market_id} has wrong fields")
        if id(o) in accepted_volume:
            resting = accepted_volume[id(o)] - sum(x.volume for j, x in d_execs if j < i and x.market_id == o.market_id and o.order_id in (x.buy_order_id, x.sell_order_id))
            if l.volume != resting:
                raise Violation("C10.cancel_record_fields", f"CancelLog of order {o.order_id}/m{o.market_id} reports volume {l.volume}; accepted {accepted_volume[id(o)]}, "
                                                            f"filled before the cancel {accepted_volume[id(o)] - resting}: {resting} was resting")
        if l.cancel_time != items[i][1]["times"][0]:
            raise Violation("C10.cancel_record_fields", f"CancelLog of order {o.order_id}/m{o.market_id} says cancel_time {l.cancel_time}, the clock read "
                                                        f"{items[i][1]['times'][0]} when the cancel was accepted")
    # (c) fills: per order and per step sums against the order objects and the market statistics
    filled = collections.Counter()
    per_step_vol = collections.Counter()
    per_step_tot = collections.defaultdict(float)
    for i, l in d_execs:
        filled[(l.market_id, l.buy_order_id)] += l.volume
        filled[(l.market_id, l.sell_order_id)] += l.volume
        per_step_vol[(l.market_id, l.time)] += l.volume
        per_step_tot[(l.market_id, l.time)] += l.volume * l.price
    snap_by_obj = {id(o): snap for o, snap, _ in A.returned_orders}
    for o, snap, _ in A.returned_orders:
        init = accepted_volume[id(o)]
        got = filled.get((o.market_id, o.order_id), 0)
        if got != init - o.volume:
            raise Violation("C10.fill_records_per_order", f"order {o.order_id}/m{o.market_id}: fill records sum to {got}, the order lost {init - o.volume} "
                                                          f"(accepted {init}, left {o.volume})")
    for m in sim.markets:
        for t in range(m.get_time() + 1):
            if per_step_vol.get((m.market_id, t), 0) != m.get_executed_volume(t):
                raise Violation("C10.fill_records_per_step", f"market {m.market_id} step {t}: fill records sum to {per_step_vol.get((m.market_id, t), 0)}, "
                                                             f"executed volume is {m.get_executed_volume(t)}")
            if not math.isclose(per_step_tot.get((m.market_id, t), 0.0), m.get_executed_total_price(t), rel_tol=1e-9, abs_tol=1e-9):
                raise Violation("C10.fill_records_turnover", f"market {m.market_id} step {t}")
    for i, l in d_execs:
        if l.market_id not in sim.id2market or (l.market_id, l.buy_order_id) not in by_key or (l.market_id, l.sell_order_id) not in by_key:
            raise Violation("C10.fill_record_unknown_order", f"fill names order ids {l.buy_order_id}/{l.sell_order_id} on market {l.market_id}")
        bo, so = by_key[(l.market_id, l.buy_order_id)][0][1], by_key[(l.market_id, l.sell_order_id)][0][1]
        if (l.buy_agent_id, l.sell_agent_id) != (bo.agent_id, so.agent_id) or not bo.is_buy or so.is_buy:
            raise Violation("C10.fill_record_fields", f"fill record names agents {l.buy_agent_id}/{l.sell_agent_id}, the orders belong to {bo.agent_id}/{so.agent_id}")
        if l.time != items[i][1]["times"][0]:
            raise Violation("C10.fill_record_time", f"fill record time {l.time}, clock {items[i][1]['times'][0]}")
    # (d) expiries from the lifetime model
    cancel_idx = {}
    for i, l in d_cancels:
        cancel_idx.setdefault((l.market_id, l.order_id), i)
    expected = {}
    fills_by_order = collections.defaultdict(list)
    for i, l in d_execs:
        fills_by_order[(l.market_id, l.buy_order_id)].append((l.time, l.volume))
        fills_by_order[(l.market_id, l.sell_order_id)].append((l.time, l.volume))
    final_t = sim.markets[0].get_time()
    for o, snap, _ in A.returned_orders:
        if o.ttl is None:
            continue
        t_e = o.placed_at + o.ttl + 1
        if t_e > final_t:
            continue
        key = (o.market_id, o.order_id)
        left = accepted_volume[id(o)] - sum(v for t, v in fills_by_order.get(key, []))
        if left <= 0:
            continue
        if key in cancel_idx:
            # cancelled before it could expire? (a cancel at clock <= placed_at + ttl removes it first)
            ctime = [l.cancel_time for i, l in d_cancels if (l.market_id, l.order_id) == key][0]
            if ctime <= o.placed_at + o.ttl:
                continue
        expected[key] = (t_e, left, o)
    got_exp = collections.Counter((l.market_id, l.order_id) for i, l in d_expire)
    for key, n in got_exp.items():
        if key not in expected:
            raise Violation("C10.expiry_record_unexpected", f"ExpirationLog for order {key[1]}/m{key[0]} which did not expire with volume left")
        if n != 1:
            raise Violation("C10.expiry_record_count", f"{n} ExpirationLogs for order {key[1]}/m{key[0]}")
    for key, (t_e, left, o) in expected.items():
        if key not in got_exp:
            raise Violation("C10.expiry_record_missing", f"order {key[1]}/m{key[0]} (accepted {o.placed_at}, ttl {o.ttl}) expired at {t_e} with {left} left: no ExpirationLog")
    for i, l in d_expire:
        t_e, left, o = expected[(l.market_id, l.order_id)]
        if (l.time, l.volume, l.order_time, l.agent_id, l.is_buy, l.kind, l.price, l.ttl) != (t_e, left, o.placed_at, o.agent_id, o.is_buy, o.kind, o.price, o.ttl):
            raise Violation("C10.expiry_record_fields", f"ExpirationLog of order {l.order_id}/m{l.market_id}: time {l.time} volume {l.volume}, expected {t_e} {left}")
    # (e) order of delivery
    pos_order = {(l.market_id, l.order_id): i for i, l in d_orders}
    last_fill = {}
    first_fill = {}
    for i, l in d_execs:
        for key in ((l.market_id, l.buy_order_id), (l.market_id, l.sell_order_id)):
            first_fill.setdefault(key, i)
            last_fill[key] = i
    for key, i in first_fill.items():
        if pos_order[key] > i:
            raise Violation("C10.order_of_records", f"a fill of order {key} was delivered before its OrderLog")
    for i, l in d_expire:
        key = (l.market_id, l.order_id)
        if key in last_fill and last_fill[key] > i:
            raise Violation("C10.order_of_records", f"a fill of order {key} was delivered after its ExpirationLog")
    for key, i in cancel_idx.items():
        if key in last_fill and last_fill[key] > i:
            raise Violation("C10.order_of_records", f"a fill of order {key} was delivered after its CancelLog")
    cb_seq = [id(kw["log"]) for k, kw in items if k in ("cb.submitted", "cb.canceled")]
    lg_seq = [id(l) for i, l in delivered if isinstance(l, (OrderLog, CancelLog))]
    if sorted(cb_seq) == sorted(lg_seq) and cb_seq != lg_seq:
        raise Violation("C10.order_of_records", "acceptance records reach the logger in a different order than the acceptances happen")
    tprev = -1
    for i, l in delivered:
        t = getattr(l, "cancel_time", None) if isinstance(l, CancelLog) else getattr(l, "time", None)
        if t is None:
            continue
        if t < tprev:
            raise Violation("C10.order_of_records", f"record times decrease along the delivery order ({tprev} then {t})")
        tprev = t
    # (f) begin / end records
    kinds = [(i, k, kw["log"]) for i, (k, kw) in enumerate(items) if k in ("log.write", "log.direct", "log.bulk")]
    sb = [x for x in kinds if isinstance(x[2], SimulationBeginLog)]
    se = [x for x in kinds if isinstance(x[2], SimulationEndLog)]
    if len(sb) != 1 or len(se) != 1 or kinds[0][2] is not sb[0][2] or kinds[-1][2] is not se[0][2]:
        raise Violation("C10.simulation_records", f"{len(sb)} begin / {len(se)} end records, or not first / last")
    for s in sim.sessions:
        b = [x for x in kinds if isinstance(x[2], SessionBeginLog) and x[2].session is s]
        e = [x for x in kinds if isinstance(x[2], SessionEndLog) and x[2].session is s]
        if len(b) != 1 or len(e) != 1 or b[0][0] > e[0][0]:
            raise Violation("C10.session_records", f"session {s.session_id}: {len(b)} begin / {len(e)} end records")
        inner_steps = [st for st in A.steps if st["session"] is s]
        if len(inner_steps) != s.iteration_steps or any(not (b[0][0] < st["begin"] < e[0][0]) for st in inner_steps):
            raise Violation("C10.session_records", f"session {s.session_id}: step records not bracketed by its begin / end records")
    step_recs = collections.Counter()
    for i, k, l in kinds:
        if isinstance(l, (MarketStepBeginLog, MarketStepEndLog)):
            if k != "log.direct":
                raise Violation("C10.step_records_synchronous", "a step record was queued instead of being processed directly")
            step_recs[(items[i][1].get("log_type", type(l).__name__), items[i][1].get("market_id", l.market.market_id), items[i][1]["times"][0])] += 1
    for t in range(A.total_steps):
        for m in sim.markets:
            for nm in ("MarketStepBeginLog", "MarketStepEndLog"):
                if step_recs.get((nm, m.market_id, t), 0) != 1:
                    raise Violation("C10.step_records", f"{step_recs.get((nm, m.market_id, t), 0)} {nm} records for market {m.market_id} step {t}")
    if sum(step_recs.values()) != 2 * A.total_steps * len(sim.markets):
        raise Violation("C10.step_records", "extra step records")
    # (g) processing: step records synchronously, everything else no later than the next session boundary
    proc_idx = collections.defaultdict(list)
    for i, (k, kw) in enumerate(items):
        if k == "log.process":
            proc_idx[id(kw["log"])].append(i)
    boundary_proc = []
    for i, k, l in kinds:
        if isinstance(l, (SimulationBeginLog, SimulationEndLog, SessionBeginLog, SessionEndLog)):
            p = proc_idx.get(id(l), [])
            if len(p) != 1:
                raise Violation("C10.processing", f"{type(l).__name__} processed {len(p)} times")
            boundary_proc.append((i, p[0]))
    for i, k, l in kinds:
        p = proc_idx.get(id(l), [])
        if k == "log.direct":
            if len(p) != 1 or p[0] != i + 1:
                raise Violation("C10.step_records_synchronous", f"{type(l).__name__} not processed synchronously")
            continue
        n_deliveries = sum(1 for _, k2, l2 in kinds if l2 is l) if isinstance(l, ExecutionLog) else 1
        if len(p) != n_deliveries:
            raise Violation("C10.processing", f"{type(l).__name__} delivered {n_deliveries} time(s) but processed {len(p)} time(s)")
        nxt = [bp for bi, bp in boundary_proc if bi >= i]
        if not nxt or p[0] > nxt[0]:
            raise Violation("C10.processing_deadline", f"{type(l).__name__} written at item {i} was not processed by the next session boundary")
    # "no later than the next session boundary": a record of session k (and k's end record) is handled while k is still the
    # current session -- not after the runner has moved on to k+1 and run its before-session hooks
    written_in = {id(kw["log"]): kw.get("session_now") for k, kw in items if k in ("log.write", "log.bulk")}
    for k, kw in items:
        if k == "log.process" and isinstance(kw["log"], (OrderLog, CancelLog, ExecutionLog, ExpirationLog, SessionEndLog)):
            w = written_in.get(id(kw["log"]))
            if w is not None and kw.get("session_now") is not None and kw["session_now"] != w:
                raise Violation("C10.processing_deadline", f"{type(kw['log']).__name__} handed over during session {w} reached its handler only when session "
                                                           f"{kw['session_now']} was the current one")
    # the handlers receive the queued records in the order in which they were handed to the logger, each through the handler
    # of its own type
    for k, kw in items:
        if k == "log.process" and kw.get("handler") != type(kw["log"]).__name__:
            raise Violation("C10.processing", f"{type(kw['log']).__name__} reached the handler for {kw.get('handler')}")
    direct_ids = {id(l) for _, k, l in kinds if k == "log.direct"}
    handed = [id(l) for _, k, l in kinds if k != "log.direct"]
    handled = [id(kw["log"]) for k, kw in items if k == "log.process" and id(kw["log"]) not in direct_ids]
    if handed != handled:
        n = next((j for j, (a, b) in enumerate(zip(handed, handled)) if a != b), min(len(handed), len(handled)))
        raise Violation("C10.order_of_records", f"the logger's handlers receive the records in a different order than they were handed over "
                                                 f"(first difference at record {n} of {len(handed)})")
    n_cancel = len(d_cancels)
    rounds = A.rounds()
    return {"orders": len(d_orders), "cancels": n_cancel, "fills": len(d_execs), "expiries": len(d_expire),
            "multi_fill_rounds": sum(1 for r in rounds if len(r) >= 2)}


# ---------------------------------------------------------------------------------------------------------------
# C11

ORDER_LOG_FIELDS = ("order_id", "market_id", "time", "agent_id", "is_buy", "kind", "price", "volume", "ttl")
CANCEL_LOG_FIELDS = ("order_id", "market_id", "cancel_time", "order_time", "agent_id", "is_buy", "kind", "price", "volume", "ttl")
EXEC_LOG_FIELDS = ("market_id", "time", "buy_agent_id", "sell_agent_id", "buy_order_id", "sell_order_id", "price", "volume")


def fields(log, names):
    return tuple(getattr(log, n) for n in names)


def check_c11(A: Analysis) -> Dict[str, Any]:
    items = A.items
    # accepted orders and cancels per agent, from the agents' own ground truth (objects they returned)
    want_sub = collections.defaultdict(list)
    for o, snap, _ in A.returned_orders:
        want_sub[o.agent_id].append((o.market_id, o.order_id))
    got_sub = collections.defaultdict(list)
    logger_orders = {(l.market_id, l.order_id): l for _, l in A.order_logs}
    for k, kw in items:
        if k == "cb.submitted":
            l = kw["log"]
            if not isinstance(l, OrderLog):
                raise Violation("C11.submitted_record_type", type(l).__name__)
            if l.agent_id != kw["agent"]:
                raise Violation("C11.notified_non_party", f"agent {kw['agent']} was told about the order of agent {l.agent_id}")
            got_sub[kw["agent"]].append((l.market_id, l.order_id))
            ref = logger_orders.get((l.market_id, l.order_id))
            if ref is not None and fields(ref, ORDER_LOG_FIELDS) != fields(l, ORDER_LOG_FIELDS):
                raise Violation("C11.submitted_record_fields", f"callback record {fields(l, ORDER_LOG_FIELDS)} differs from the logged record {fields(ref, ORDER_LOG_FIELDS)}")
    for o, snap, _ in A.returned_orders:
        l = logger_orders.get((o.market_id, o.order_id))
        if l is not None and (l.agent_id, l.is_buy, l.price, l.ttl, l.time) != (o.agent_id, o.is_buy, o.price, o.ttl, o.placed_at):
            raise Violation("C11.submitted_record_fields", "record does not describe the accepted order")
    agents = set(want_sub) | set(got_sub)
    for a in agents:
        if collections.Counter(want_sub[a]) != collections.Counter(got_sub[a]):
            raise Violation("C11.submitted_exactly_once", f"agent {a}: accepted orders {sorted(want_sub[a])}, submitted_order calls {sorted(got_sub[a])}")
    # the per-agent order of notifications follows the order of acceptance (OrderLog sequence)
    accept_seq = collections.defaultdict(list)
    for _, l in A.order_logs:
        accept_seq[l.agent_id].append((l.market_id, l.order_id))
    for a in agents:
        if accept_seq.get(a, []) != got_sub[a] and collections.Counter(accept_seq.get(a, [])) == collections.Counter(got_sub[a]):
            raise Violation("C11.submitted_order", f"agent {a} notified in a different order than its orders were accepted")
    # cancels
    want_c = collections.Counter()
    for c, _ in A.returned_cancels:
        want_c[(c.order.agent_id, c.order.market_id, c.order.order_id, c.placed_at)] += 1
    got_c = collections.Counter()
    for k, kw in items:
        if k == "cb.canceled":
            l = kw["log"]
            if not isinstance(l, CancelLog):
                raise Violation("C11.canceled_record_type", type(l).__name__)
            if l.agent_id != kw["agent"]:
                raise Violation("C11.notified_non_party", f"agent {kw['agent']} was told about the cancel of agent {l.agent_id}")
            got_c[(kw["agent"], l.market_id, l.order_id, l.cancel_time)] += 1
    if want_c != got_c:
        raise Violation("C11.canceled_exactly_once", f"accepted cancels {sorted(want_c.items())[:6]} vs canceled_order calls {sorted(got_c.items())[:6]}")
    # fills: buyer once, seller once (twice on a self-trading agent), nobody else; holdings already include the whole round
    want_e = collections.Counter()
    for _, l in A.fills:
        want_e[(l.buy_agent_id, fields(l, EXEC_LOG_FIELDS))] += 1
        want_e[(l.sell_agent_id, fields(l, EXEC_LOG_FIELDS))] += 1
    got_e = collections.Counter()
    for k, kw in items:
        if k == "cb.executed":
            l = kw["log"]
            if not isinstance(l, ExecutionLog):
                raise Violation("C11.executed_record_type", type(l).__name__)
            if kw["agent"] not in (l.buy_agent_id, l.sell_agent_id):
                raise Violation("C11.notified_non_party", f"agent {kw['agent']} was told about a fill between {l.buy_agent_id} and {l.sell_agent_id}")
            got_e[(kw["agent"], fields(l, EXEC_LOG_FIELDS))] += 1
    if want_e != got_e:
        missing = list((want_e - got_e).items())[:3]
        extra = list((got_e - want_e).items())[:3]
        raise Violation("C11.executed_exactly_once", f"missing notifications {missing}, extra notifications {extra}")
    # holdings at each notification already include all fills of the round
    model = {a: [Fraction(c), dict(v)] for a, (c, v) in A.init_hold.items()}
    rounds = A.rounds()
    round_of = {}
    for r in rounds:
        for i, l in r:
            round_of[id(l)] = r
    applied = set()
    max_round = 0
    for i, (k, kw) in enumerate(items):
        if k == "cb.executed":
            r = round_of.get(id(kw["log"]))
            if r is None:
                raise Violation("C11.executed_record_unknown", "notification about a fill the logger never saw")
            max_round = max(max_round, len(r))
            for j, l in r:
                if id(l) not in applied:
                    applied.add(id(l))
                    amount = Fraction(l.price) * l.volume
                    model[l.buy_agent_id][0] -= amount
                    model[l.sell_agent_id][0] += amount
                    model[l.buy_agent_id][1][l.market_id] = model[l.buy_agent_id][1].get(l.market_id, 0) + l.volume
                    model[l.sell_agent_id][1][l.market_id] = model[l.sell_agent_id][1].get(l.market_id, 0) - l.volume
            for a, (c, v) in kw["hold"].items():
                if v != model[a][1] or not close(c, model[a][0]):
                    raise Violation("C11.notified_after_holdings_update",
                                    f"when agent {kw['agent']} was notified of a fill, agent {a} held {c!r} {v}; with the whole round applied it is "
                                    f"{float(model[a][0])!r} {model[a][1]}")
    self_trades = sum(1 for _, l in A.fills if l.buy_agent_id == l.sell_agent_id)
    parties = max((len({a for _, l in r for a in (l.buy_agent_id, l.sell_agent_id)}) for r in rounds), default=0)
    return {"fills": len(A.fills), "self_trades": self_trades, "max_round": max_round, "max_parties": parties,
            "cancels": sum(want_c.values()), "orders": len(A.returned_orders)}


# ---------------------------------------------------------------------------------------------------------------
# "a matching round follows every acceptance" in the presence of halts (used by C03's and C16's runner parts)


def check_round_follows(A: Analysis, prop: str) -> int:
    """After an accepted order / cancel on market m: if m was running and the session was executing at the observation point
    before the acceptance AND still at the next one (so no halt intervened), m's book is not executable at that next point.
    Needs the run option exec_state.  Returns the number of acceptances judged."""
    sim = A.sim
    judged = 0
    last = None
    pend: Dict[int, Tuple[str, Any]] = {}
    for k, kw in A.items:
        if kw.get("executable") is not None and kw.get("running") is not None:
            for mi, (what, before) in pend.items():
                ok_before = before is not None and before["running"][mi] and before["sess_exec"]
                if ok_before and kw["running"][mi] and kw["sess_exec"]:
                    judged += 1
                    if kw["executable"][mi]:
                        raise Violation(f"{prop}.round_follows_acceptance", f"after the accepted {what} on market {mi} (running, executing session, no halt in between) "
                                                                            f"the book is still executable at the next observation point ({k}, time {kw.get('times', ['?'])[0]})")
            pend = {}
            last = kw
        if k == "log.write" and isinstance(kw["log"], (OrderLog, CancelLog)):
            pend[sim.markets.index(sim.id2market[kw["log"].market_id])] = (type(kw["log"]).__name__, last)
    return judged


# ---------------------------------------------------------------------------------------------------------------
# C09


def check_c09(A: Analysis, has_halt_rule: bool) -> Dict[str, Any]:
    sim = A.sim
    normal, hft = A.normal, A.hft
    stats = collections.Counter()
    full_orders = []
    # interleaving: a high-frequency agent acts on the book as it is NOW -- what it returns is accepted (and matched) before
    # the next agent is consulted.  Witness of an acceptance: the logger's record or the owner's callback.
    acc_pos: Dict[Tuple[int, int], int] = {}
    for i, (k, kw) in enumerate(A.items):
        if (k == "log.write" and isinstance(kw["log"], OrderLog)) or k == "cb.submitted":
            acc_pos.setdefault((kw["log"].market_id, kw["log"].order_id), i)
    consult_idx = [i for i, _ in A.consults]
    for n_c, (i, kw) in enumerate(A.consults):
        if not kw["hft"] or not kw["raw"]:
            continue
        nxt = consult_idx[n_c + 1] if n_c + 1 < len(consult_idx) else None
        for o in kw["raw"]:
            if not isinstance(o, Order) or o.order_id is None:
                continue
            pos = acc_pos.get((o.market_id, o.order_id))
            if pos is not None and nxt is not None and pos > nxt:
                raise Violation("C09.hft_interleaving", f"the order of high-frequency agent {kw['agent']} (consulted at trace item {i}) was accepted at item {pos}, "
                                                        f"after the next agent had already been consulted (item {nxt})")
            stats["hft_orders_interleaved"] += 1
    for s in A.steps:
        ses = s["session"]
        cs = A.sess_cfg[ses.session_id]
        cons = [(kw["agent"], kw["hft"], kw["n"]) for i, k, kw in s["items"] if k == "consult"]
        fills = [kw["log"] for i, k, kw in s["items"] if k == "log.write" and isinstance(kw["log"], ExecutionLog)]
        accs = [kw["log"] for i, k, kw in s["items"] if k == "log.write" and isinstance(kw["log"], (OrderLog, CancelLog))]
        stats["steps"] += 1
        stats["flags_%s_%s" % (cs["withOrderPlacement"], cs["withOrderExecution"])] += 1
        if not cs["withOrderPlacement"]:
            if cons:
                raise Violation("C09.no_placement_no_consultation", f"step {s['t']}: agents {[c[0] for c in cons]} consulted in a session without order placement")
            if accs:
                raise Violation("C09.no_placement_no_acceptance", f"step {s['t']}: order accepted in a session without order placement")
        if not cs["withOrderExecution"] and fills:
            raise Violation("C09.no_execution_no_fill", f"step {s['t']} of session {ses.session_id} (withOrderExecution=false): {len(fills)} fill(s)")
        nc = [(a, n) for a, h, n in cons if not h]
        if len(set(a for a, n in nc)) != len(nc):
            raise Violation("C09.normal_agent_once_per_step", f"step {s['t']}: consultations {nc}")
        if any(a not in normal for a, n in nc):
            raise Violation("C09.agent_classification", "a high-frequency agent was consulted as a normal agent")
        cap = cs.get("maxNormalOrders", 1)
        prod = 0
        for a, n in nc:
            if prod >= cap:
                raise Violation("C09.normal_cap", f"step {s['t']}: agent {a} consulted after {prod} agents had already produced orders (maxNormalOrders {cap})")
            if n > 0:
                prod += 1
        if cs["withOrderPlacement"] and prod < cap and len(nc) != len(normal):
            raise Violation("C09.normal_all_consulted", f"step {s['t']}: {len(nc)} of {len(normal)} normal agents consulted although only {prod} < {cap} produced orders")
        if prod >= cap > 0:
            stats["normal_cap_binds"] += 1
        if cs["withOrderPlacement"] and len(nc) == len(normal) and len(normal) >= 3:
            full_orders.append(tuple(a for a, n in nc))
        # all normal consultations precede every acceptance of the step (orders are collected first, then handled)
        # high-frequency groups
        groups: List[List[Tuple[int, int]]] = []
        g = None
        nbatches = 0
        last_normal = None
        for i, k, kw in s["items"]:
            # an acceptance is witnessed by the logger's record or by the owner's callback (either suffices here: which of
            # the two channels is complete is C10's / C11's subject)
            if (k == "log.write" and isinstance(kw["log"], (OrderLog, CancelLog))) or k in ("cb.submitted", "cb.canceled"):
                ag = kw["log"].agent_id
                if ag in normal:
                    if ag != last_normal:
                        nbatches += 1
                        last_normal = ag
                    g = None
            if k == "consult" and kw["hft"]:
                if nbatches == 0:
                    raise Violation("C09.hft_after_normal_batch", f"step {s['t']}: high-frequency agent consulted before any normal batch was handled")
                if g is None:
                    g = []
                    groups.append(g)
                g.append((kw["agent"], kw["n"]))
        # (either spelling of the two renamed keys; a session may mix them)
        hcap = cs.get("maxHighFrequencyOrders", cs.get("maxHifreqOrders", 1))
        rate = cs.get("highFrequencySubmitRate", cs.get("hifreqSubmitRate", 1.0))
        for g in groups:
            if len(set(a for a, n in g)) != len(g):
                raise Violation("C09.hft_once_per_group", f"step {s['t']}: group {g}")
            p = 0
            for a, n in g:
                if p >= hcap:
                    raise Violation("C09.hft_cap", f"step {s['t']}: high-frequency agent {a} consulted after {p} had produced orders (maxHighFrequencyOrders {hcap})")
                if n > 0:
                    p += 1
            if p < hcap and len(g) != len(hft):
                raise Violation("C09.hft_group_complete", f"step {s['t']}: group {g} stops early ({len(hft)} high-frequency agents, cap {hcap})")
            if p >= hcap:
                stats["hft_cap_binds"] += 1
        if rate == 0.0 and groups:
            raise Violation("C09.hft_rate_zero", f"step {s['t']}: high-frequency agents consulted at submit rate 0")
        if rate == 1.0 and hft and hcap > 0 and len(groups) != nbatches:
            raise Violation("C09.hft_rate_one", f"step {s['t']}: {len(groups)} high-frequency groups for {nbatches} normal batches at submit rate 1")
        if len(groups) > nbatches:
            raise Violation("C09.hft_one_group_per_batch", f"step {s['t']}: {len(groups)} groups for {nbatches} batches")
        stats["hft_groups"] += len(groups)
        stats["batches"] += nbatches
        if hft and hcap > 0 and 0.0 < rate < 1.0:
            stats["rate_batches"] += nbatches
            stats["rate_groups"] += len(groups)
        # a matching round follows every acceptance (execution session, no halt rule configured)
        if cs["withOrderExecution"] and not has_halt_rule:
            pend = None
            for i, k, kw in s["items"]:
                if kw.get("executable") is not None and pend is not None:
                    mi, what = pend
                    if kw["executable"][mi]:
                        raise Violation("C09.round_follows_acceptance", f"step {s['t']}: after the accepted {what} on market {mi} the book is still executable "
                                                                        f"at the next observation point ({k})")
                    pend = None
                    stats["round_checks"] += 1
                if k == "log.write" and isinstance(kw["log"], (OrderLog, CancelLog)):
                    pend = (sim.markets.index(sim.id2market[kw["log"].market_id]), type(kw["log"]).__name__)
    if len(full_orders) >= 30 and len(set(full_orders)) == 1:
        raise Violation("C09.random_order", f"{len(full_orders)} steps consulted the {len(full_orders[0])} normal agents in the identical order {full_orders[0]}")
    stats["full_order_steps"] = len(full_orders)
    stats["distinct_orders"] = len(set(full_orders))
    return dict(stats)


# ---------------------------------------------------------------------------------------------------------------
# C13


def check_c13(A: Analysis) -> Dict[str, Any]:
    from .models import tick_violation

    sim = A.sim
    items = A.items
    # which probe events exist, and with which hooks, comes from the CONFIGURATION (events are created session by session,
    # in list order, with consecutive ids) -- not from what the simulator ended up registering
    hookspecs = {}
    rewrite_of = {}
    eid = 0
    for sc in A.sess_cfg:
        for name in sc.get("events", []):
            ec = A.cfg[name]
            if ec.get("class") in ("VProbeEvent", "VSnapEvent"):
                hookspecs[eid] = ec["hooks"]
                rewrite_of[eid] = ec.get("rewrite")
            eid += 1
    occ = collections.Counter()
    got = collections.Counter()

    def fire(evtype, before, t, market=None, ident=None):
        for eid, specs in hookspecs.items():
            n = 0
            for (typ, b, tl, cls, inst) in specs:
                if typ != evtype or b != before:
                    continue
                if tl is not None and t not in tl:
                    continue
                if typ == "market":
                    if cls == "IndexMarket" and not isinstance(market, IndexMarket):
                        continue
                    if inst is not None and sim.markets[inst % len(sim.markets)] is not market:
                        continue
                n += 1
            if n:
                occ[(eid, evtype, before, ident)] += n

    for o, snap, _ in A.returned_orders:
        ident = ("o", o.market_id, o.order_id)
        fire("order", True, o.placed_at, ident=ident)
        fire("order", False, o.placed_at, ident=ident)
    for c, _ in A.returned_cancels:
        ident = ("c", c.order.market_id, c.order.order_id, c.placed_at)
        fire("cancel", True, c.placed_at, ident=ident)
        fire("cancel", False, c.placed_at, ident=ident)
    for _, l in A.fills:
        fire("execution", False, l.time, ident=("x", id(l)))
    start = 0
    for sc, ses in zip(A.sess_cfg, sim.sessions):
        fire("session", True, start, ident=("s", ses.session_id))
        fire("session", False, start + sc["iterationSteps"] - 1, ident=("s", ses.session_id))
        start += sc["iterationSteps"]
    for t in range(A.total_steps):
        for m in sim.markets:
            fire("market", True, t, market=m, ident=("m", t, m.market_id))
            fire("market", False, t, market=m, ident=("m", t, m.market_id))
    rewrites = collections.defaultdict(list)
    for i, (k, kw) in enumerate(items):
        if k != "hook":
            continue
        typ, ba = kw["what"].rsplit("_", 1)
        before = ba == "before"
        clock = kw["times"][0]
        if len(set(kw["times"])) != 1:
            raise Violation("C13.hook_clock", "markets disagree on the time inside a hook")
        if typ == "order":
            if before:
                o = kw["order"]
                ident = ("o", o.market_id, o.order_id)
                if kw["snap"]["order_id"] is not None or kw["snap"]["placed_at"] is not None or kw["in_book"]:
                    raise Violation("C13.before_order_runs_before_acceptance", f"order already had id {kw['snap']['order_id']} / time {kw['snap']['placed_at']} / in book {kw['in_book']}")
                if rewrite_of.get(kw["event"]):
                    rewrites[id(o)].append(rewrite_of[kw["event"]])
            else:
                ident = ("o", kw["log"].market_id, kw["log"].order_id)
                if kw["log"].time != clock:
                    raise Violation("C13.hook_time", "after-order hook at a different clock than the acceptance")
        elif typ == "cancel":
            if before:
                c = kw["cancel"]
                ident = ("c", c.order.market_id, c.order.order_id, c.placed_at)
                if kw["placed_at"] is not None and not getattr(c, "v_prestamped", False):  # (the harness pre-stamps some cancels itself)
                    raise Violation("C13.before_cancel_runs_before_acceptance", "cancel already marked accepted")
            else:
                l = kw["log"]
                ident = ("c", l.market_id, l.order_id, l.cancel_time)
        elif typ == "execution":
            ident = ("x", id(kw["log"]))
        elif typ == "session":
            ident = ("s", kw["session"])
        else:
            ident = ("m", clock, kw["market"])
        got[(kw["event"], typ, before, ident)] += 1
    if occ != got:
        missing = list((occ - got).items())[:4]
        extra = list((got - occ).items())[:4]
        raise Violation("C13.hook_invocations", f"expected-but-missing invocations {missing}; unexpected invocations {extra} "
                                                f"(keys: event id, hook type, is_before, occurrence)")
    # before-hooks may alter the pending order: the accepted record reflects the rewrite
    logger_orders = {(l.market_id, l.order_id): l for _, l in A.order_logs}
    n_rewritten = 0
    for o, snap, _ in A.returned_orders:
        rw = rewrites.get(id(o))
        if not rw:
            continue
        n_rewritten += 1
        vol = snap["volume"]
        price = snap["price"]
        for r in rw:
            if price is not None and "price_mult" in r:
                price = price * r["price_mult"]
            vol += r.get("volume_add", 0)
        l = logger_orders[(o.market_id, o.order_id)]
        if l.volume != vol:
            raise Violation("C13.before_order_can_alter", f"order rewritten to volume {vol} by a before-order hook was accepted with {l.volume}")
        if price is not None:
            msg = tick_violation(price, sim.id2market[o.market_id].tick_size, l.price, l.is_buy)
            if msg:
                raise Violation("C13.before_order_can_alter", f"rewritten price {price!r} accepted as {l.price!r}: {msg}")
    # ordering of step hooks relative to the acceptances of the step, and of session hooks relative to the steps
    acc_idx = collections.defaultdict(list)
    for i, l in A.order_logs:
        acc_idx[l.time].append(i)
    for i, l in A.cancel_logs:
        acc_idx[l.cancel_time].append(i)
    for i, (k, kw) in enumerate(items):
        if k == "hook" and kw["what"] in ("market_before", "market_after"):
            t = kw["times"][0]
            if acc_idx.get(t):
                if kw["what"] == "market_before" and i > min(acc_idx[t]):
                    raise Violation("C13.before_step_precedes_step", f"before-step hook of step {t} ran after an acceptance of that step")
                if kw["what"] == "market_after" and i < max(acc_idx[t]):
                    raise Violation("C13.after_step_follows_step", f"after-step hook of step {t} ran before an acceptance of that step")
        if k == "hook" and kw["what"] in ("session_before", "session_after"):
            ses = sim.sessions[kw["session"]]
            mine = [st for st in A.steps if st["session"] is ses]
            if mine:
                if kw["what"] == "session_before" and i > mine[0]["begin"]:
                    raise Violation("C13.before_session_precedes_session", "")
                if kw["what"] == "session_after" and i < mine[-1]["begin"]:
                    raise Violation("C13.after_session_follows_session", "")
    # "after each fill" / "before each order": within one agent's submission the hooks are interleaved with the handling of its
    # elements -- the after-execution hooks of a round run before the next element is accepted, and an element's before hook
    # runs only after the previous element has been accepted (it may look at the book and the prices the previous one left)
    acceptance = [i for i, (k, kw) in enumerate(items) if k == "log.write" and isinstance(kw["log"], (OrderLog, CancelLog))]
    fill_written = {id(kw["log"]): i for i, (k, kw) in enumerate(items) if k == "log.write" and isinstance(kw["log"], ExecutionLog)}
    if not A.no_logger:
        for i, (k, kw) in enumerate(items):
            if k == "hook" and kw["what"] == "execution_after" and id(kw["log"]) in fill_written:
                j = fill_written[id(kw["log"])]
                if any(j < a < i for a in acceptance):
                    raise Violation("C13.after_fill_hook_runs_at_once", f"the after-execution hook for the fill at time {kw['log'].time} ran only after a later order or "
                                                                        f"cancel had been accepted (trace items: fill {j}, hook {i})")
        acc_of = {}
        for i, (k, kw) in enumerate(items):
            if k == "log.write" and isinstance(kw["log"], OrderLog):
                acc_of.setdefault((kw["log"].market_id, kw["log"].order_id), i)
        before_of = {id(kw["order"]): i for i, (k, kw) in enumerate(items) if k == "hook" and kw["what"] == "order_before"}
        for _, ckw in A.consults:
            prev = None
            for o in ckw["raw"]:
                if not isinstance(o, Order):
                    prev = None
                    continue
                if prev is not None and id(o) in before_of and (prev.market_id, prev.order_id) in acc_of:
                    if before_of[id(o)] < acc_of[(prev.market_id, prev.order_id)]:
                        raise Violation("C13.before_hook_runs_right_before", f"the before-order hook of an order of agent {ckw['agent']} ran before the previous order of the "
                                                                             f"same submission had been accepted")
                prev = o
    types = collections.Counter(k[1] + ("_before" if k[2] else "_after") for k in got)
    return {"invocations": sum(got.values()), "combos": len(types), "rewritten": n_rewritten, "types": dict(types),
            "fills": len(A.fills), "cancels": len(A.returned_cancels)}


# ---------------------------------------------------------------------------------------------------------------
# C04 (simulation level)


def check_c04_sim(A: Analysis) -> Dict[str, Any]:
    """per-order accounting and lifetime from the log stream of a whole simulation."""
    items = A.items
    first_terminal: Dict[Tuple[int, int], Tuple[int, str, int, int]] = {}
    fills = collections.defaultdict(list)
    accept_idx = {}
    for i, (k, kw) in enumerate(items):
        if k not in ("log.write", "log.bulk"):
            continue
        l = kw["log"]
        if isinstance(l, OrderLog):
            key = (l.market_id, l.order_id)
            if key in accept_idx:
                raise Violation("C04.accepted_twice", f"order {key} accepted twice")
            accept_idx[key] = i
        elif isinstance(l, ExecutionLog):
            for key in ((l.market_id, l.buy_order_id), (l.market_id, l.sell_order_id)):
                fills[key].append((i, l.time, l.volume))
        elif isinstance(l, CancelLog):
            first_terminal.setdefault((l.market_id, l.order_id), (i, "cancel", l.cancel_time, l.volume))
        elif isinstance(l, ExpirationLog):
            first_terminal.setdefault((l.market_id, l.order_id), (i, "expiry", l.time, l.volume))
    stats = collections.Counter()
    final_t = A.sim.markets[0].get_time()
    for o, snap, _ in A.returned_orders:
        key = (o.market_id, o.order_id)
        if key not in accept_idx:
            raise Violation("C04.order_not_accepted", f"{snap}")
        # the accepted volume is the one on the acceptance record (an event may have rewritten the pending order)
        init = items[accept_idx[key]][1]["log"].volume
        fl = fills.get(key, [])
        filled = sum(v for _, _, v in fl)
        term = first_terminal.get(key)
        if o.volume < 0 or filled > init:
            raise Violation("C04.overfilled", f"order {key}: accepted {init}, fills sum to {filled}")
        if term is not None:
            ti, what, tt, tv = term
            before = sum(v for i, _, v in fl if i < ti)
            if before + tv != init:
                raise Violation("C04.nothing_lost", f"order {key}: accepted {init}, filled {before} before its {what} at {tt}, which reports {tv} left")
            late = [(t, v) for i, t, v in fl if i > ti]
            if late:
                raise Violation("C04.fill_after_terminal_event", f"order {key} filled {late} after its {what} at time {tt}")
            if before > 0:
                stats[f"partial_then_{what}"] += 1
        else:
            if init - filled != o.volume:
                raise Violation("C04.nothing_lost", f"order {key}: accepted {init}, filled {filled}, object reports {o.volume} left")
            rests = o.volume > 0 and (o.ttl is None or o.placed_at + o.ttl >= final_t)
            if o.volume > 0 and not rests:
                raise Violation("C04.expired_order_without_record", f"order {key} (accepted {o.placed_at}, ttl {o.ttl}) has {o.volume} left at the final time {final_t} "
                                                                    f"but neither a cancel nor an expiry was reported")
        if o.ttl is not None:
            for i, t, v in fl:
                if t > o.placed_at + o.ttl:
                    raise Violation("C04.fill_after_expiry", f"order {key} (accepted {o.placed_at}, ttl {o.ttl}) filled at time {t}")
                if t == o.placed_at + o.ttl:
                    stats["filled_in_last_step_of_life"] += 1
    # the books at the end hold exactly the orders that should still rest
    for m in A.sim.markets:
        for is_buy, depth in ((True, m.get_buy_order_book()), (False, m.get_sell_order_book())):
            want = collections.Counter()
            for o, snap, _ in A.returned_orders:
                if o.market_id == m.market_id and o.is_buy == is_buy and o.volume > 0 and (m.market_id, o.order_id) not in first_terminal:
                    want[o.price] += o.volume
            if dict(depth) != dict(want):
                raise Violation("C04.final_book", f"market {m.name} {'buy' if is_buy else 'sell'} book at the end {dict(depth)}, surviving orders imply {dict(want)}")
            if any(v <= 0 for v in depth.values()):
                raise Violation("C04.resting_volume_positive", f"{dict(depth)}")
    stats["orders"] = len(A.returned_orders)
    stats["fills"] = len(A.fills)
    return dict(stats)
