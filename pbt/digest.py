"""Digest of the complete observable outcome of one simulation (C07)."""
import hashlib
import json
import math
from typing import Any, Dict

from .simharness import GETN, run_case


def _val(v: Any) -> Any:
    if v is None or isinstance(v, (bool, int, str)):
        return v
    if isinstance(v, float):
        return "nan" if math.isnan(v) else repr(v)
    if isinstance(v, (list, tuple)):
        return [_val(x) for x in v]
    if isinstance(v, dict):
        return {str(k): _val(x) for k, x in sorted(v.items(), key=lambda kv: str(kv[0]))}
    for attr in ("market_id", "agent_id", "session_id", "event_id"):
        if hasattr(v, attr):
            return f"<{type(v).__name__} {attr}={getattr(v, attr)}>"
    if hasattr(v, "name") and isinstance(getattr(v, "name"), str):
        return f"<{type(v).__name__} {v.name}>"
    return f"<{type(v).__name__}>"


def _log(l: Any) -> Any:
    d = {"type": type(l).__name__}
    for k, v in sorted(vars(l).items()):
        d[k] = _val(v)
    return d


def outcome_stream(res) -> Any:
    out = []
    for kind, kw in res.trace.items:
        rec: Dict[str, Any] = {"k": kind}
        for key, v in kw.items():
            if key in ("log",):
                rec[key] = _log(v)
            elif key in ("raw", "order", "cancel"):
                continue  # objects; their field snapshots ("snap") are recorded instead
            else:
                rec[key] = _val(v)
        out.append(rec)
    sim = res.runner.simulator
    series = {}
    for m in sim.markets:
        t = m.get_time()
        series[m.name] = {g: _val(getattr(m, g)(range(t + 1))) for g in GETN}
        series[m.name]["book"] = [_val(list(m.get_buy_order_book().items())), _val(list(m.get_sell_order_book().items()))]
    out.append({"series": series})
    out.append({"holdings": {a.name: [_val(a.cash_amount), _val(dict(a.asset_volumes))] for a in sim.agents}})
    return out


def digest_case(case: Dict[str, Any], logger=None) -> Dict[str, Any]:
    """logger: a Logger instance to hand to the runner (the C07 worker reuses ONE instance for all the runs of a process, as a
    loop over seeds would)"""
    res = run_case(case, {"fundamentals": True, "logger_instance": logger})
    stream = outcome_stream(res)
    data = json.dumps(stream, sort_keys=True).encode()
    return {"digest": hashlib.sha256(data).hexdigest(), "records": len(stream), "settings_unchanged": res.settings_before == res.settings_after,
            "n_logs": sum(1 for k, _ in res.trace.items if k.startswith("log.")),
            "classes": sorted({type(a).__name__ for a in res.runner.simulator.agents} | {type(e).__name__ for e in res.runner.simulator.events})}
