"""Kind C: whole simulations under the real SequentialRunner with user-registered probe classes.

A case is ``{"config": <pams settings dict>, "seed": int}``.  Agents (``VScriptedAgent`` / ``VScriptedHFT`` and traced
subclasses of the built-in agents), events (``VProbeEvent``) and the logger (``RecLogger``) are ordinary user classes
registered through ``Runner.class_register`` -- no hook inside pams is used.  Everything they see is appended to one
totally ordered trace; the per-property oracles are pure functions of (case, trace, final simulator).
"""
import copy
import random
import warnings
from typing import Any, Dict, List, Optional

from .common import PamsCrash, classify_exception

warnings.simplefilter("ignore")

from pams.agents import (Agent, ArbitrageAgent, FCNAgent, HighFrequencyAgent, MarketMakerAgent,  # noqa: E402
                         MarketShareFCNAgent, TestAgent)
from pams.events import EventABC, EventHook  # noqa: E402
from pams.index_market import IndexMarket  # noqa: E402
from pams.logs.base import (CancelLog, ExecutionLog, ExpirationLog, Logger, MarketStepBeginLog,  # noqa: E402
                            MarketStepEndLog, OrderLog, SessionBeginLog, SessionEndLog, SimulationBeginLog,
                            SimulationEndLog)
from pams.market import Market  # noqa: E402
from pams.order import LIMIT_ORDER, MARKET_ORDER, Cancel, Order  # noqa: E402
from pams.runners.sequential import SequentialRunner  # noqa: E402

GETN = ["get_market_prices", "get_mid_prices", "get_last_executed_prices", "get_fundamental_prices",
        "get_executed_volumes", "get_executed_total_prices", "get_n_buy_orders", "get_n_sell_orders"]
GET1 = ["get_market_price", "get_mid_price", "get_last_executed_price", "get_fundamental_price", "get_executed_volume",
        "get_executed_total_price", "get_n_buy_order", "get_n_sell_order", "get_vwap"]


class Trace:
    def __init__(self, options: Dict[str, Any]):
        self.items: List[Any] = []
        self.sim = None
        self.options = options
        self.illegal: Optional[str] = None  # set by a scripted agent right before it returns an illegal action
        self.errs: List[Any] = []  # violations noticed by in-run probes (C06)
        self.prev_series: Dict[int, Dict[str, list]] = {}
        self.counters: Dict[str, int] = {}

    def add(self, kind: str, **kw) -> None:
        self.items.append((kind, kw))

    def count(self, name: str, n: int = 1) -> None:
        self.counters[name] = self.counters.get(name, 0) + n


CURRENT: Optional[Trace] = None


def T() -> Trace:
    assert CURRENT is not None
    return CURRENT


def holdings(sim) -> Dict[int, Any]:
    return {a.agent_id: (a.cash_amount, dict(a.asset_volumes)) for a in sim.agents}


def times(sim) -> List[int]:
    return [m.get_time() for m in sim.markets]


def is_executable(m) -> bool:
    """C03's predicate, from public getters only: both sides non-empty, at least one best order is a limit order,
    and the pair of best orders can trade."""
    bd, sd = m.get_buy_order_book(), m.get_sell_order_book()
    if not bd or not sd:
        return False
    bb, ba = next(iter(bd)), next(iter(sd))
    if bb is None and ba is None:
        return False
    if bb is None or ba is None:
        return True
    return bb >= ba


def exec_state(tr) -> Optional[List[bool]]:
    if tr.options.get("exec_state"):
        return [is_executable(m) for m in tr.sim.markets]
    return None


def obs_state(tr) -> Dict[str, Any]:
    """running flags and the session's execution switch at an observation point (recorded together with exec_state)."""
    if not tr.options.get("exec_state"):
        return {}
    sim = tr.sim
    return {"running": [m.is_running for m in sim.markets],
            "sess_exec": sim.current_session.with_order_execution if sim.current_session is not None else None}


def index_obs(tr) -> Dict[str, Any]:
    """explicit-time queries of every index market for the CURRENT step (option index_queries): what it answers now, next to
    what its components report now"""
    if not tr.options.get("index_queries"):
        return {}
    out = []
    for m in tr.sim.markets:
        if isinstance(m, IndexMarket):
            t = m.get_time()
            out.append((m.market_id, t, m.get_index(t), m.get_market_index(time=t),
                        [(c.get_market_price(t), c.outstanding_shares) for c in m.get_components()]))
    return {"idxq": out}


def order_fields(o: Order) -> Dict[str, Any]:
    return {"agent_id": o.agent_id, "market_id": o.market_id, "is_buy": o.is_buy, "kind": o.kind.name, "volume": o.volume,
            "price": o.price, "ttl": o.ttl, "order_id": o.order_id, "placed_at": o.placed_at}


def _cur_session(sim):
    return sim.current_session.session_id if getattr(sim, "current_session", None) is not None else None


class RecLogger(Logger):
    def write(self, log):
        tr = T()
        tr.add("log.write", log=log, times=times(tr.sim), session_now=_cur_session(tr.sim))
        super().write(log)

    def bulk_write(self, logs):
        tr = T()
        for l in logs:
            tr.add("log.bulk", log=l, times=times(tr.sim), session_now=_cur_session(tr.sim))
        super().bulk_write(logs)

    def write_and_direct_process(self, log):
        tr = T()
        sim = tr.sim
        kw = dict(log=log, log_type=type(log).__name__, market_id=getattr(getattr(log, "market", None), "market_id", None),
                  session_id=getattr(getattr(log, "session", None), "session_id", None),
                  times=times(sim), hold=holdings(sim), running=[m.is_running for m in sim.markets],
                  sess_exec=sim.current_session.with_order_execution if sim.current_session is not None else None,
                  session=sim.current_session.session_id if sim.current_session is not None else None)
        if tr.options.get("fundamentals") and isinstance(log, (MarketStepBeginLog, MarketStepEndLog)):
            kw["fund"] = [m.get_fundamental_price() for m in sim.markets]
        if tr.options.get("book") and isinstance(log, (MarketStepBeginLog, MarketStepEndLog)):
            kw["book"] = [(list(m.get_buy_order_book().items())[:1], list(m.get_sell_order_book().items())[:1]) for m in sim.markets]
        kw["executable"] = exec_state(tr)
        tr.add("log.direct", **kw)
        super().write_and_direct_process(log)

    # the records as a user's Logger subclass receives them: through the per-type handlers that Logger.process dispatches to
    def _handled(self, handler, log):
        tr = T()
        tr.add("log.process", log=log, handler=handler, session_now=_cur_session(tr.sim))

    def process_order_log(self, log):
        self._handled("OrderLog", log)

    def process_cancel_log(self, log):
        self._handled("CancelLog", log)

    def process_expiration_log(self, log):
        self._handled("ExpirationLog", log)

    def process_execution_log(self, log):
        self._handled("ExecutionLog", log)

    def process_simulation_begin_log(self, log):
        self._handled("SimulationBeginLog", log)

    def process_simulation_end_log(self, log):
        self._handled("SimulationEndLog", log)

    def process_session_begin_log(self, log):
        self._handled("SessionBeginLog", log)

    def process_session_end_log(self, log):
        self._handled("SessionEndLog", log)

    def process_market_step_begin_log(self, log):
        self._handled("MarketStepBeginLog", log)

    def process_market_step_end_log(self, log):
        self._handled("MarketStepEndLog", log)


# ---------------------------------------------------------------------------------------------------------------
# agents


class _Recording:
    """records consultations and callbacks of any agent class it is mixed into."""

    def _record_consult(self, out):
        tr = T()
        tr.add("consult", agent=self.agent_id, hft=isinstance(self, HighFrequencyAgent), n=len(out), raw=list(out),
               snap=[order_fields(o) if isinstance(o, Order) else {"cancel_of": (o.order.market_id, o.order.order_id)} for o in out],
               times=times(tr.sim), executable=exec_state(tr), **obs_state(tr))

    def submitted_order(self, log):
        T().add("cb.submitted", agent=self.agent_id, log=log)

    def canceled_order(self, log):
        T().add("cb.canceled", agent=self.agent_id, log=log)

    def executed_order(self, log):
        tr = T()
        tr.add("cb.executed", agent=self.agent_id, log=log, hold=holdings(tr.sim))


class _Scripted(_Recording):
    """plays a generated program: a list of actions, one per consultation, cyclically."""

    def setup(self, settings, accessible_markets_ids, *a, **k):
        super().setup(settings=settings, accessible_markets_ids=accessible_markets_ids)
        scripts = settings["scripts"]
        self.script = scripts[self.agent_id % len(scripts)]
        self.k = 0
        self.mine: List[Order] = []

    def _market(self, markets, mi):
        acc = [m for m in markets if self.is_market_accessible(m.market_id)]
        return acc[mi % len(acc)]

    def submit_orders(self, markets):
        tr = T()
        out: List[Any] = []
        if self.script:
            act = self.script[self.k % len(self.script)]
            self.k += 1
        else:
            act = []
        for spec in act:
            kind = spec[0]
            if kind in ("P", "E"):
                # price relative to the current market price ("P") or to the time-0 price ("E": exactly a band edge)
                m = self._market(markets, spec[1])
                ref = m.get_market_price() if kind == "P" else m.get_market_price(0)
                o = Order(agent_id=self.agent_id, market_id=m.market_id, is_buy=spec[2], kind=LIMIT_ORDER, volume=spec[4],
                          price=max(m.tick_size, ref * (1 + spec[3])), ttl=spec[5])
                out.append(o)
                self.mine.append(o)
            elif kind in ("L", "A", "M", "OC"):
                m = self._market(markets, spec[1])
                is_buy = spec[2]
                if kind == "L" or kind == "OC":
                    price = max(m.tick_size, m.get_market_price() + spec[3] * m.tick_size)
                    o = Order(agent_id=self.agent_id, market_id=m.market_id, is_buy=is_buy, kind=LIMIT_ORDER,
                              volume=spec[4], price=price, ttl=spec[5] if kind == "L" else None)
                elif kind == "A":
                    o = Order(agent_id=self.agent_id, market_id=m.market_id, is_buy=is_buy, kind=LIMIT_ORDER,
                              volume=spec[4], price=spec[3], ttl=spec[5])
                else:
                    o = Order(agent_id=self.agent_id, market_id=m.market_id, is_buy=is_buy, kind=MARKET_ORDER,
                              volume=spec[3], ttl=spec[4])
                out.append(o)
                self.mine.append(o)
                if kind == "OC":
                    out.append(Cancel(order=o))
            elif kind == "C":
                cands = [o for o in self.mine if o.placed_at is not None]
                if cands:
                    tgt = cands[spec[1] % len(cands)]
                    # (every third cancel carries its optional time stamp already -- stale on purpose: the market stamps it on acceptance)
                    c_ = Cancel(order=tgt, placed_at=0) if spec[1] % 3 == 2 else Cancel(order=tgt)
                    c_.v_prestamped = spec[1] % 3 == 2
                    out.append(c_)
            elif kind == "RS":  # illegal: re-submit an already accepted order object
                cands = [o for o in self.mine if o.placed_at is not None]
                if cands:
                    out.append(cands[spec[1] % len(cands)])
                    tr.illegal = "resubmit"
            elif kind == "FA":  # illegal: an order carrying another agent's id
                others = [a for a in tr.sim.agents if a.agent_id != self.agent_id]
                if others:
                    m = self._market(markets, spec[1])
                    out.append(Order(agent_id=others[spec[2] % len(others)].agent_id, market_id=m.market_id, is_buy=True,
                                     kind=LIMIT_ORDER, volume=1, price=m.get_market_price()))
                    tr.illegal = "forged_agent_id"
            elif kind == "CO":  # illegal: cancel of somebody else's order
                foreign = [o for a in tr.sim.agents if a.agent_id != self.agent_id and hasattr(a, "mine")
                           for o in a.mine if o.placed_at is not None]
                if foreign:
                    out.append(Cancel(order=foreign[spec[1] % len(foreign)]))
                    tr.illegal = "cancel_of_foreign_order"
            else:
                raise ValueError(f"unknown action {spec!r}")
        self._record_consult(out)
        return out


class VScriptedAgent(_Scripted, Agent):
    pass


class VScriptedHFT(_Scripted, HighFrequencyAgent):
    pass


class _ScriptedBase(_Scripted, Agent):
    """an intermediate user base class that supplies behaviour and callbacks"""


class VScriptedHFTLate(HighFrequencyAgent, _ScriptedBase):
    """the same agent, declared the other way round: HighFrequencyAgent first, the class that supplies the callbacks after it
    (and a plain subclass below it, so that nothing is defined in the agent's own class body)"""


class VScriptedAgentSub(VScriptedAgent):
    """callbacks and behaviour inherited through an intermediate class"""


def _traced(base, name):
    def submit_orders(self, markets):
        out = base.submit_orders(self, markets)
        self._record_consult(out)
        return out

    return type(name, (_Recording, base), {"submit_orders": submit_orders})


VTracedFCNAgent = _traced(FCNAgent, "VTracedFCNAgent")
VTracedMarketShareFCNAgent = _traced(MarketShareFCNAgent, "VTracedMarketShareFCNAgent")
VTracedMarketMakerAgent = _traced(MarketMakerAgent, "VTracedMarketMakerAgent")
VTracedArbitrageAgent = _traced(ArbitrageAgent, "VTracedArbitrageAgent")
VTracedTestAgent = _traced(TestAgent, "VTracedTestAgent")
TRACED = [VTracedFCNAgent, VTracedMarketShareFCNAgent, VTracedMarketMakerAgent, VTracedArbitrageAgent, VTracedTestAgent]


class VTracedHFTMaker(_Recording, HighFrequencyAgent):
    """a high-frequency agent with built-in style behaviour: quotes around the market price of its first market."""

    def submit_orders(self, markets):
        out = []
        for m in markets:
            if self.is_market_accessible(m.market_id) and self.prng.random() < 0.5:
                p = m.get_market_price()
                out.append(Order(agent_id=self.agent_id, market_id=m.market_id, is_buy=self.prng.random() < 0.5,
                                 kind=LIMIT_ORDER, volume=1, price=p * (1 + (self.prng.random() - 0.5) * 0.02), ttl=2))
                break
        self._record_consult(out)
        return out


# ---------------------------------------------------------------------------------------------------------------
# events


class VProbeEvent(EventABC):
    """records every hook invocation; hooks come from settings["hooks"] = [[type, is_before, times|None, cls|None, inst|None], ...]"""

    def setup(self, settings, *a, **k):
        self.hookspecs = settings["hooks"]
        self.is_enabled = False  # an attribute of this user-written event with a meaning of its own: nobody else's business
        self.rewrite = settings.get("rewrite")
        # optional: change a parameter of the fundamental process in the before-step hook of market 0 at a given time
        # ({"at": t, "market": name, "drift": x, "now": bool}); "now": False uses the method's default time (0)
        self.fundamental_change = settings.get("fundamentalChange")
        self.reshare = settings.get("reshare")
        self.same_hook_twice = settings.get("sameHookTwice", False)

    def hook_registration(self):
        hs = []
        if not hasattr(self, "hookspecs"):
            # asked for hooks before setup() ran: nothing to register yet (the oracles will see missing invocations)
            T().count("hook_registration_before_setup")
            return hs
        for (typ, before, tlist, cls, inst) in self.hookspecs:
            kw = {}
            if cls:
                kw["specific_class"] = {"Market": Market, "IndexMarket": IndexMarket}[cls]
            if inst is not None:
                kw["specific_instance"] = self.simulator.markets[inst % len(self.simulator.markets)]
            hs.append(EventHook(event=self, hook_type=typ, is_before=before, time=list(tlist) if tlist is not None else None, **kw))
        if self.same_hook_twice and hs:
            hs.append(hs[0])
        return hs

    def _r(self, what, **kw):
        tr = T()
        tr.add("hook", event=self.event_id, what=what, times=times(tr.sim), **kw)

    def hooked_before_order(self, simulator, order):
        m = simulator.id2market[order.market_id]
        in_book = any(o is order for o in m.buy_order_book.priority_queue) or any(o is order for o in m.sell_order_book.priority_queue)
        self._r("order_before", order=order, snap=order_fields(order), p0=m.get_market_price(0), mp=m.get_market_price(),
                in_book=in_book, fund=m.get_fundamental_price(), executable=exec_state(T()), **obs_state(T()))
        if self.rewrite:
            if order.price is not None and "price_mult" in self.rewrite:
                order.price = order.price * self.rewrite["price_mult"]
            if "volume_add" in self.rewrite:
                order.volume = order.volume + self.rewrite["volume_add"]
            T().count("rewrites")

    def hooked_after_order(self, simulator, order_log):
        self._r("order_after", log=order_log)

    def hooked_before_cancel(self, simulator, cancel):
        self._r("cancel_before", cancel=cancel, canceled_already=cancel.order.is_canceled, placed_at=cancel.placed_at,
                executable=exec_state(T()), **obs_state(T()))

    def hooked_after_cancel(self, simulator, cancel_log):
        self._r("cancel_after", log=cancel_log)

    def hooked_after_execution(self, simulator, execution_log):
        m = simulator.id2market[execution_log.market_id]
        self._r("execution_after", log=execution_log, p0=m.get_market_price(0), mp=m.get_market_price(), running=m.is_running,
                sess_exec=simulator.current_session.with_order_execution)

    def hooked_before_session(self, simulator, session):
        self._r("session_before", session=session.session_id)

    def hooked_after_session(self, simulator, session):
        self._r("session_after", session=session.session_id)

    def hooked_before_step_for_market(self, simulator, market):
        tr = T()
        kw = {}
        if tr.options.get("fundamentals"):
            kw["fund"] = [m.get_fundamental_price() for m in simulator.markets]
            kw["shares"] = [m.outstanding_shares for m in simulator.markets]
        kw.update(index_obs(tr))
        self._r("market_before", market=market.market_id, **kw)
        rs = getattr(self, "reshare", None)
        if rs and market is simulator.markets[0] and market.get_time() == rs["at"]:
            # a corporate action written as a user event: the (public) share count of a market changes in mid-run
            simulator.name2market[rs["market"]].outstanding_shares = rs["shares"]
            tr.count("reshares")
        fc = getattr(self, "fundamental_change", None)
        if fc and market is simulator.markets[0] and market.get_time() == fc["at"]:
            mid = simulator.name2market[fc["market"]].market_id
            if fc.get("now"):
                simulator.fundamentals.change_drift(market_id=mid, drift=fc["drift"], time=market.get_time())
            else:
                simulator.fundamentals.change_drift(market_id=mid, drift=fc["drift"])
            tr.count("fundamental_changes")
        if tr.options.get("probe_series"):
            probe_series(tr, market)

    def hooked_after_step_for_market(self, simulator, market):
        self._r("market_after", market=market.market_id, **index_obs(T()))
        tr = T()
        if tr.options.get("probe_series"):
            # the values of the current time are final once the step is over: compare the past with the last snapshot,
            # then remember everything up to and including now
            compare_with_previous_snapshot(tr, market, market.get_time(), inclusive=True)


def probe_series(tr: Trace, market) -> None:
    """C06 in-run probe: future refused by every getter, past identical to the previous snapshot."""
    t = market.get_time()
    errs = tr.errs
    rnd = tr.options["probe_rng"]
    dts = [1, rnd.choice([2, 3, 57, 99, 100, 101, 250])]
    for g in GET1:
        for dt in dts:
            try:
                v = getattr(market, g)(t + dt)
            except Exception:  # noqa: BLE001  (the property says "refused": any exception is a refusal)
                tr.count("future_refused")
            else:
                errs.append(("future_allowed", f"{g}({t}+{dt}) at time {t} returned {v!r}"))
    k = dts[1]
    shapes = [[0, t + k], [t + k, 0], [t + 1, t], [t, t + 1, max(t - 1, 0)], range(t + k, -1, -1), iter([t + 1]), (x for x in (t + k, t))]
    for g in GETN:
        times_arg = shapes[rnd.randrange(len(shapes))] if g != GETN[0] else shapes[1]
        desc = repr(times_arg) if not hasattr(times_arg, "__next__") else "iterator with a future time"
        if hasattr(times_arg, "__next__"):
            # one-shot iterators are consumed by the probe: rebuild per call
            times_arg = iter([t + 1, t]) if rnd.random() < 0.5 else (x for x in (t, t + k))
        try:
            v = getattr(market, g)(times_arg)
        except Exception:  # noqa: BLE001
            tr.count("future_refused")
        else:
            errs.append(("future_allowed", f"{g}({desc}) at time {t} was answered with {v!r}"))
    if isinstance(market, IndexMarket):
        for g in ("get_index", "get_market_index", "get_fundamental_index", "compute_market_index", "compute_fundamental_index"):
            for dt in dts:
                try:
                    v = getattr(market, g)(t + dt)
                except Exception:  # noqa: BLE001
                    tr.count("future_refused")
                else:
                    errs.append(("future_allowed", f"index {g}({t}+{dt}) at time {t} returned {v!r}"))
    compare_with_previous_snapshot(tr, market, t, inclusive=False)


def compare_with_previous_snapshot(tr: Trace, market, t: int, inclusive: bool) -> None:
    """values recorded for times the previous snapshot already covered must be unchanged; then take a new snapshot
    (of times < t in the before-step hook, of times <= t in the after-step hook, when the step's values are final)."""
    cur = {g: getattr(market, g)(range(t + 1 if inclusive else t)) for g in GETN}
    names_ = list(GETN)
    # the volume-weighted average price up to a PAST step is history as well
    cur["get_vwap"] = [market.get_vwap(u) for u in range(t + 1 if inclusive else t)]
    names_.append("get_vwap")
    if isinstance(market, IndexMarket):
        # the index value of a PAST time is history too
        cur["get_index"] = [market.get_index(u) for u in range(t + 1 if inclusive else t)]
        names_.append("get_index")
    old = tr.prev_series.get(market.market_id)
    if old is not None:
        for g in names_:
            o = old[g]
            c = cur[g][: len(o)]
            for i, (a, b) in enumerate(zip(o, c)):
                if not (a == b or (a != a and b != b)):
                    tr.errs.append(("history_changed", f"{g}[{i}] was {a!r}, is {b!r} at time {t} (market {market.market_id})"))
                    break
    if old is None or inclusive or len(cur[GETN[0]]) >= len(old[GETN[0]]):
        tr.prev_series[market.market_id] = cur


class VSnapEvent(VProbeEvent):
    """probe with a before-step hook on every market (used when a profile needs observation at every step)."""


from pams.events import FundamentalPriceShock, OrderMistakeShock, PriceLimitRule, TradingHaltRule  # noqa: E402


class VSubPriceLimitRule(PriceLimitRule):
    """user subclasses of the shipped events that add nothing: every handler is inherited"""


class VSubTradingHaltRule(TradingHaltRule):
    pass


class VSubFundamentalPriceShock(FundamentalPriceShock):
    pass


class VSubOrderMistakeShock(OrderMistakeShock):
    pass


class VForwardingMarket(Market):
    """a user-defined market that changes nothing; its constructor forwards whatever it is given"""

    def __init__(self, *args, **kwargs):
        super().__init__(*args, **kwargs)


class VQuotedMarket(Market):
    """a user-defined market that PUBLISHES other numbers than the base class records: the single-time price getters return the
    recorded value plus a premium.  (Whoever asks the market -- an index computing its average, an agent -- gets the published
    number; the series getters and the book are the base class's.)"""

    PREMIUM = 3.0

    def get_market_price(self, time=None):
        return super().get_market_price(time) + self.PREMIUM

    def get_fundamental_price(self, time=None):
        return super().get_fundamental_price(time) * 1.01


ALL_CLASSES = [VSubPriceLimitRule, VSubTradingHaltRule, VSubFundamentalPriceShock, VSubOrderMistakeShock, VForwardingMarket, VScriptedAgent, VScriptedHFT, VScriptedHFTLate, VScriptedAgentSub, VTracedHFTMaker, VProbeEvent, VSnapEvent, VQuotedMarket] + TRACED


# ---------------------------------------------------------------------------------------------------------------
# running a case


class RunResult:
    def __init__(self):
        self.runner = None
        self.trace: Optional[Trace] = None
        self.crash: Optional[PamsCrash] = None
        self.phase = "init"
        self.refused: Optional[str] = None
        self.refusal_exc: Optional[BaseException] = None
        self.init_hold = None
        self.settings_before = None
        self.settings_after = None


def run_case(case: Dict[str, Any], options: Optional[Dict[str, Any]] = None, raise_crash: bool = True) -> RunResult:
    """run one simulation; pams exceptions become PamsCrash unless an illegal scripted action was just committed."""
    global CURRENT
    options = dict(options or {})
    options.setdefault("probe_rng", random.Random(case["seed"] ^ 0x5EED))
    res = RunResult()
    cfg = copy.deepcopy(case["config"])
    res.settings_before = copy.deepcopy(cfg)
    tr = Trace(options)
    CURRENT = tr
    res.trace = tr
    lg = None if case.get("no_logger") else (options.get("logger_instance") or RecLogger())  # a run without any logger is a legitimate way to use the runner
    try:
        try:
            r = SequentialRunner(settings=cfg, prng=random.Random(case["seed"]), logger=lg)
            res.runner = r
            for c in ALL_CLASSES:
                r.class_register(c)
            tr.sim = r.simulator
            res.phase = "setup"
            r._setup()
            res.init_hold = holdings(r.simulator)
            tr.add("setup_done", hold=res.init_hold)
            res.phase = "run"
            r._run()
            res.phase = "done"
        except Exception as e:  # noqa: BLE001
            if tr.illegal is not None:
                res.refused = tr.illegal
                res.refusal_exc = e
            else:
                crash = classify_exception(e)
                if crash is None:
                    raise
                crash.where = res.phase
                res.crash = crash
                if raise_crash:
                    raise crash
    finally:
        res.settings_after = cfg
        CURRENT = None
    return res
