"""Kind A: histories of operations interpreted against one real ``pams.market.Market`` and the reference BookModel.

A case is a JSON dict::

    {"tick": 0.5, "p0": 100.0, "continuous": true, "running0": true,
     "ops": [["L", is_buy, price, volume, ttl, agent], ["M", is_buy, volume, ttl, agent], ["C", k],
             ["T"], ["R", bool], ["X"], ["RS", k], ["FM", is_buy, price, volume]]}

``L``/``M`` submit a limit / market order (``Market._add_order`` -- the call the runner makes), ``C`` cancels the k-th
(mod n) order accepted so far whatever its state, ``T`` advances the clock (``Market._update_time``), ``R`` switches
running on/off (what sessions and the halt rule do), ``X`` is a matching round (``Market._execution``) when running,
``CB`` cancels the current best order of a side, ``RS`` re-submits an already accepted order object and ``FM`` submits an order naming another market (both must be
refused), ``D`` (drain probe) deep-copies the market, sweeps a fraction of one side with one aggressive order and applies
the round oracles to that sweep without touching the history (also done for both sides at the end of every history).  In continuous mode a round is attempted after every submit / cancel while running.
"""
import copy
import math
import random
import warnings
from typing import Any, Dict, List, Optional, Set

from hypothesis import strategies as st

from .common import CaseInfo, PamsCrash, Violation, classify_exception
from .models import MO, BookModel, tick_violation

warnings.simplefilter("ignore")

from pams.logs.base import CancelLog, ExecutionLog, ExpirationLog, Logger, OrderLog  # noqa: E402
from pams.market import Market  # noqa: E402
from pams.order import LIMIT_ORDER, MARKET_ORDER, Cancel, Order  # noqa: E402


class RecLogger(Logger):
    def __init__(self) -> None:
        super().__init__()
        self.rec: List[Any] = []

    def write(self, log):
        self.rec.append(log)

    def bulk_write(self, logs):
        self.rec.extend(logs)


def _call(fn, *a, **k):
    """call into pams; an exception whose innermost frame is pams code becomes PamsCrash."""
    try:
        return fn(*a, **k)
    except Exception as e:  # noqa: BLE001
        crash = classify_exception(e)
        if crash is None:
            raise
        raise crash


def same(a, b) -> bool:
    return a == b or (a is None and b is None) or (isinstance(a, float) and isinstance(b, float) and a != a and b != b)


class MarketRun:
    """interprets one case; ``oracles`` selects which properties' oracles are evaluated."""

    def __init__(self, case: Dict[str, Any], oracles: Set[str]):
        self.case = case
        self.oracles = oracles
        self.tick = case["tick"]
        self.p0 = case["p0"]
        self.lg = RecLogger()
        self.m = Market(market_id=0, prng=random.Random(0), simulator=None, name="m", logger=self.lg)
        # (the optional keys Market.setup documents: they declare properties of the asset and leave book and statistics alone)
        self.m.setup(dict({"tickSize": self.tick, "marketPrice": self.p0}, **case.get("extra_settings", {})))
        self.M = BookModel(self.tick, self.p0)
        self.live: List[Any] = []  # (Order, MO) in acceptance order
        self.by_id: Dict[int, Any] = {}
        self.flags: Dict[str, int] = {}
        self.n_rounds = 0
        self.log_pos = 0
        self.last_round_logs: List[Any] = []
        self.hist: List[Any] = []

    # -- helpers
    def flag(self, name: str, n: int = 1) -> None:
        self.flags[name] = self.flags.get(name, 0) + n

    def new_logs(self) -> List[Any]:
        logs = self.lg.rec[self.log_pos:]
        self.log_pos = len(self.lg.rec)
        return logs

    def fail(self, prop: str, oracle: str, msg: str) -> None:
        if prop in self.oracles:
            raise Violation(f"{prop}.{oracle}", msg, {"history_tail": self.hist[-12:]})

    # -- operations
    def start(self) -> None:
        self.m._is_running = bool(self.case.get("running0", True))
        self.M.running = self.m._is_running
        _call(self.m._update_time, next_fundamental_price=self.p0)
        self.M.clock_step()
        self.new_logs()
        self.compare("start")
        for _ in range(int(self.case.get("pre_ticks", 0))):
            self.op_tick()

    def op_submit(self, kind: str, is_buy: bool, price: Optional[float], vol: int, ttl: Optional[int], agent: int) -> None:
        m, M = self.m, self.M
        pre_premise = M.premise()
        n_every = self.case.get("rewrite_every")
        if n_every and M.nid % n_every == 0:
            # a pending order rewritten before acceptance, as an event's before-order hook may do (the order-mistake shock turns
            # whatever was submitted into a limit order of its own side, volume, price and lifetime): what counts is the order as accepted
            o = Order(agent_id=agent, market_id=0, is_buy=not is_buy, kind=MARKET_ORDER if kind == "L" else LIMIT_ORDER,
                      volume=vol + 1, price=None if kind == "L" else self.p0, ttl=None)
            o.is_buy, o.kind, o.volume, o.price, o.ttl = is_buy, (LIMIT_ORDER if kind == "L" else MARKET_ORDER), vol, price, ttl
            self.flag("rewritten_before_acceptance")
        else:
            o = Order(agent_id=agent, market_id=0, is_buy=is_buy, kind=LIMIT_ORDER if kind == "L" else MARKET_ORDER,
                      volume=vol, price=price, ttl=ttl)
        log = _call(m._add_order, o)
        logs = self.new_logs()
        # acceptance record
        if not isinstance(log, OrderLog):
            self.fail("C04", "acceptance_record", f"_add_order returned {type(log).__name__}")
        if kind == "L":
            msg = tick_violation(price, self.tick, log.price, is_buy)
            if msg:
                self.fail("C19", "tick_rounding", msg)
                # keep the model usable for the other oracles: follow the accepted price
            if o.price != log.price:
                self.fail("C19", "order_vs_log_price", f"order carries {o.price!r}, log {log.price!r}")
            if (price % self.tick) != 0:
                self.flag("offgrid")
        else:
            if log.price is not None:
                self.fail("C08", "market_order_priced", f"market order accepted with price {log.price!r}")
        mo = M.add(is_buy, log.price, vol, ttl, agent)
        mo.asked = price
        if log.order_id != mo.oid or o.order_id != mo.oid:
            self.fail("C04", "order_id", f"accepted id {log.order_id} / {o.order_id}, expected consecutive id {mo.oid}")
        if o.placed_at != M.t or log.time != M.t:
            self.fail("C04", "placed_at", f"placed_at {o.placed_at} log.time {log.time} clock {M.t}")
        if len([x for x in logs if isinstance(x, OrderLog)]) != 1 or len(logs) != 1:
            self.fail("C04", "acceptance_logged_once", f"{[type(x).__name__ for x in logs]}")
        self.live.append((o, mo))
        self.by_id[mo.oid] = (o, mo)
        self.compare("submit")
        if self.case["continuous"] and M.running:
            self.round(continuous=(pre_premise in ("empty", "clear")), incoming=mo)

    def op_cancel(self, k: int, via_copy: bool = False) -> None:
        if not self.live:
            return
        o, mo = self.live[k % len(self.live)]
        # (via_copy: the cancel names an equal snapshot of the order instead of the submitted object -- orders compare by value,
        #  and pams' own tests cancel that way)
        target = copy.deepcopy(o) if via_copy and mo.state == "rest" and mo.oid % 2 == 1 else o
        if target is not o:
            self.flag("cancel_via_copy")
        was_resting = mo.state == "rest"
        pre_vol = o.volume
        if mo.state == "rest" and mo.filled > 0:
            self.flag("cancel_after_partial")
        if mo.state != "rest":
            self.flag("cancel_of_dead_order")
        if via_copy and target is o and mo.state == "rest" and mo.oid % 2 == 0:
            # the cancel comes with its (optional) time stamp already filled in; the book stamps it again
            c = Cancel(order=target, placed_at=self.M.t if mo.oid % 4 == 0 else 0)
            self.flag("cancel_pre_stamped")
        else:
            c = Cancel(order=target)
        log = _call(self.m._cancel_order, c)
        logs = self.new_logs()
        self.M.cancel(mo)
        if not isinstance(log, CancelLog) or len(logs) != 1 or logs[0] is not log:
            self.fail("C04", "cancel_record", f"{[type(x).__name__ for x in logs]}")
        if was_resting:
            if log.volume != mo.vol0 - mo.filled:
                self.fail("C04", "cancel_volume", f"cancel of order {mo.oid} reports volume {log.volume}, "
                                                  f"accepted {mo.vol0} filled {mo.filled}")
        if log.volume != pre_vol or o.volume != pre_vol:
            self.fail("C04", "cancel_changes_volume", f"{pre_vol} -> log {log.volume} order {o.volume}")
        if log.order_id != mo.oid or log.cancel_time != self.M.t or log.order_time != mo.t:
            self.fail("C04", "cancel_fields", f"id {log.order_id} cancel_time {log.cancel_time} order_time {log.order_time}")
        if not target.is_canceled:
            self.fail("C04", "is_canceled_flag", "order not marked cancelled")
        self.compare("cancel")
        if self.case["continuous"] and self.M.running:
            self.round(continuous=False, incoming=None)
        if self.case.get("peel_after_cancel") and was_resting:
            # removal from the middle of the book: do the quotes still follow the ranking as the best orders leave?
            self.op_peel(mo.is_buy, 3)
        if self.case.get("drain_after_cancel") and was_resting:
            # removal from the middle of the book: sweep the whole side on a copy and check the fill sequence
            self.op_drain(mo.is_buy, 1.0)
            self.op_drain(mo.is_buy, 0.5)

    def op_tick(self) -> None:
        m, M = self.m, self.M
        pre_best = (M.best(True), M.best(False))
        _call(m._update_time, next_fundamental_price=self.p0)
        expired = M.clock_step()
        logs = self.new_logs()
        got = sorted((x.order_id, x.volume, x.is_buy, x.price, x.ttl, x.order_time, x.time) for x in logs
                     if isinstance(x, ExpirationLog))
        exp = sorted((o.oid, o.vol, o.is_buy, o.price, o.ttl, o.t, M.t) for o in expired)
        if got != exp or len(logs) != len(got):
            self.fail("C04", "expiry_records", f"expiration logs {got} expected {exp} (others: "
                                               f"{[type(x).__name__ for x in logs if not isinstance(x, ExpirationLog)]})")
        for o in expired:
            if o.filled > 0:
                self.flag("expire_after_partial")
        if expired:
            self.flag("expiry")
            if (M.best(True), M.best(False)) != pre_best:
                self.flag("expiry_changes_best")
        self.compare("tick")

    def op_jump(self, k: int) -> None:
        """Market._set_time: the clock moves k steps at once (what pams' own tests do to skip ahead)."""
        if k < 2:
            return self.op_tick()
        m, M = self.m, self.M
        # (under C08 the quotes and the depth are still judged after a jump; the price and statistics series of the skipped steps
        #  follow _set_time's own rules and are left alone from here on)
        self.jumped = True
        _call(m._set_time, time=M.t + k, next_fundamental_price=self.p0)
        expired = M.clock_jump(k)
        logs = self.new_logs()
        got = sorted((x.order_id, x.volume, x.is_buy, x.price, x.ttl, x.order_time, x.time) for x in logs if isinstance(x, ExpirationLog))
        exp = sorted((o.oid, o.vol, o.is_buy, o.price, o.ttl, o.t, M.t) for o in expired)
        if got != exp or len(logs) != len(got):
            self.fail("C04", "expiry_records", f"clock set from {M.t - k} to {M.t}: expiration logs {got} expected {exp}")
        if expired:
            self.flag("expiry")
        self.flag("clock_jump")
        if any(o.t + o.ttl < M.t - 1 for o in expired):
            self.flag("expiry_skipped_over")
        self.compare("jump")

    def op_running(self, b: bool) -> None:
        if self.M.running != b:
            self.flag("run_switch")
            if b and self.flags.get("was_off"):
                self.flag("off_then_on")
            if not b:
                self.flag("was_off")
        self.m._is_running = b
        self.M.running = b
        self.compare("running")

    def op_resubmit(self, k: int) -> None:
        if not self.live:
            return
        o, mo = self.live[k % len(self.live)]
        try:
            self.m._add_order(o)
        except Exception:  # noqa: BLE001  (any exception is a refusal; the book comparison below shows whether it was clean)
            self.flag("resubmit_refused")
        else:
            self.fail("C04", "resubmit_accepted", f"order {mo.oid} accepted a second time")
        if self.new_logs():
            self.fail("C04", "resubmit_logged", "a refused re-submission produced a log record")
        self.compare("resubmit")

    def op_foreign(self, is_buy: bool, price: float, vol: int) -> None:
        o = Order(agent_id=0, market_id=1, is_buy=is_buy, kind=LIMIT_ORDER, volume=vol, price=price)
        try:
            self.m._add_order(o)
        except Exception:  # noqa: BLE001
            self.flag("foreign_refused")
        else:
            self.fail("C04", "foreign_accepted", "order naming market 1 accepted by market 0")
        if o.order_id is not None or o.placed_at is not None:
            self.fail("C04", "foreign_marked", "refused order got an id / acceptance time")
        if self.new_logs():
            self.fail("C04", "foreign_logged", "a refused order produced a log record")
        c = Cancel(order=o)
        try:
            self.m._cancel_order(c)
        except Exception:  # noqa: BLE001
            pass
        else:
            self.fail("C04", "foreign_cancel_accepted", "cancel for another market's order accepted")
        self.new_logs()
        self.compare("foreign")

    # -- matching round
    def round(self, continuous: bool, incoming: Optional[MO]) -> None:
        m, M = self.m, self.M
        premise = M.premise()
        pre_sorted = {True: M.sorted_side(True), False: M.sorted_side(False)}
        pre_vol = {o.oid: o.vol for side in (True, False) for o in pre_sorted[side]}
        ref_pairs, ref_price = M.greedy()
        self.n_rounds += 1
        try:
            logs = m._execution()
        except Exception as e:  # noqa: BLE001
            crash = classify_exception(e)
            if crash is None:
                raise
            if "C03" in self.oracles:
                raise Violation("C03.round_raised", f"matching round raised {crash.exc_type}: {crash.exc_msg} "
                                                    f"(book premise {premise})",
                                {"history_tail": self.hist[-12:], "traceback": crash.tb_text})
            raise crash
        written = self.new_logs()
        self.last_round_logs = logs
        self.hist.append(["round", len(logs)])
        if [id(x) for x in written] != [id(x) for x in logs]:
            # the logger must see exactly the returned fills, once each, in order (C10's market-level part)
            self.fail("C04", "fills_logged_once", f"{len(written)} records written for {len(logs)} fills")
        fills: Dict[int, int] = {}
        price = None
        # --- per fill validity
        for idx, l in enumerate(logs):
            if not isinstance(l, ExecutionLog):
                self.fail("C01", "fill_record", f"{type(l).__name__}")
            b = M.orders.get(l.buy_order_id)
            a = M.orders.get(l.sell_order_id)
            if b is None or a is None or not b.is_buy or a.is_buy:
                self.fail("C01", "fill_sides", f"fill pairs buy id {l.buy_order_id} / sell id {l.sell_order_id}: "
                                               f"not one buy and one sell order of this market")
                raise Desync()
            if l.market_id != 0 or l.time != M.t or l.buy_agent_id != b.agent or l.sell_agent_id != a.agent:
                self.fail("C01", "fill_fields", f"market {l.market_id} time {l.time} agents {l.buy_agent_id},{l.sell_agent_id}")
            if not (isinstance(l.volume, int) and l.volume > 0):
                self.fail("C01", "fill_volume_positive", f"volume {l.volume}")
            if b.price is not None and not (l.price <= b.price):
                self.fail("C01", "price_above_buy_limit", f"fill at {l.price!r} above buy limit {b.price!r}")
            if a.price is not None and not (l.price >= a.price):
                self.fail("C01", "price_below_sell_limit", f"fill at {l.price!r} below sell limit {a.price!r}")
            # ... and the limits the owners SUBMITTED (the accepted limit is never more aggressive than the submitted one,
            # up to the float representation of the grid: a few ulps of the price)
            if b.asked is not None and not (l.price <= b.asked * (1 + 2.0 ** -48)):
                self.fail("C01", "price_above_submitted_buy_limit", f"fill at {l.price!r} above the buy limit {b.asked!r} its owner submitted (accepted as {b.price!r})")
            if a.asked is not None and not (l.price >= a.asked * (1 - 2.0 ** -48)):
                self.fail("C01", "price_below_submitted_sell_limit", f"fill at {l.price!r} below the sell limit {a.asked!r} its owner submitted (accepted as {a.price!r})")
            if price is None:
                price = l.price
            elif l.price != price:
                self.fail("C01", "one_price_per_round", f"fills of one round at {price!r} and {l.price!r}")
            for o in (b, a):
                if o.state != "rest" or o.vol - fills.get(o.oid, 0) < l.volume:
                    self.fail("C04", "fill_on_dead_or_overfilled_order",
                              f"fill of {l.volume} on order {o.oid} in state {o.state} with {o.vol - fills.get(o.oid, 0)} left "
                              f"(accepted at {o.t}, ttl {o.ttl}, clock {M.t})")
                    raise Desync()
                fills[o.oid] = fills.get(o.oid, 0) + l.volume
        if logs:
            # --- C01 (iv): the price is the limit of the earlier-accepted order of the last matched pair
            lb, la = M.orders[logs[-1].buy_order_id], M.orders[logs[-1].sell_order_id]
            want = BookModel.price_of_pair(lb, la)
            if want is None:
                self.fail("C01", "last_pair_without_limit", "last matched pair consists of two market orders")
            elif price != want:
                self.fail("C01", "round_price_rule", f"round price {price!r}; last pair buy#{lb.oid}@{lb.price!r}(t={lb.t}) "
                                                     f"sell#{la.oid}@{la.price!r}(t={la.t}) implies {want!r}")
            if continuous and incoming is not None:
                resting = lb if la is incoming else la
                if resting is not incoming and resting.price is not None and price != resting.price:
                    self.fail("C01", "continuous_price_is_resting_price", f"{price!r} vs resting {resting.price!r}")
            # --- C02: fills are handed out in priority order (ranks along the round's fill sequence never decrease)
            for side in (True, False):
                rank = {o.oid: i for i, o in enumerate(pre_sorted[side])}
                seq = [rank[l.buy_order_id if side else l.sell_order_id] for l in logs]
                for x, y in zip(seq, seq[1:]):
                    if y < x:
                        self.fail("C02", "fill_sequence", f"{'buy' if side else 'sell'} order {pre_sorted[side][x].brief()} was filled before the "
                                                          f"higher-priority order {pre_sorted[side][y].brief()}")
            # --- C02: no fill while a higher-priority order of the same side keeps unfilled volume
            for side in (True, False):
                blocked = None
                for o in pre_sorted[side]:
                    f = fills.get(o.oid, 0)
                    if blocked is not None and f > 0:
                        self.fail("C02", "priority", f"order {o.brief()} filled {f} while higher-priority order "
                                                     f"{blocked.brief()} kept unfilled volume")
                    if pre_vol[o.oid] - f > 0 and blocked is None:
                        blocked = o
            # class flags
            levels_b = {M.orders[l.buy_order_id].price for l in logs}
            levels_s = {M.orders[l.sell_order_id].price for l in logs}
            if len(logs) >= 2 and (len(levels_b) >= 2 or len(levels_s) >= 2):
                self.flag("round_multi_level")
            if None in levels_b or None in levels_s:
                self.flag("round_with_market_order")
            if lb.price is not None and la.price is not None and lb.t == la.t:
                self.flag("round_equal_time_tie")
            for side in (True, False):
                prices = [o.price for o in pre_sorted[side]]
                if len(prices) >= 3 and len(set(prices)) < len(prices):
                    self.flag("round_competing_tie")
            self.flag("fills", len(logs))
            self.flag("rounds_with_fills")
            if len(logs) >= 2:
                self.flag("multi_fill_round")
        if premise == "both_market":
            self.flag("round_both_best_market")
        if any(o.price is None for o in pre_sorted[True]) and any(o.price is None for o in pre_sorted[False]):
            self.flag("round_market_both_sides")
        if premise == "crossed":
            bl = sorted({o.price for o in pre_sorted[True] if o.price is not None}, reverse=True)
            sl = sorted({o.price for o in pre_sorted[False] if o.price is not None})
            if bl and sl and max(sum(1 for p in bl if p >= sl[0]), sum(1 for p in sl if p <= bl[0])) >= 2:
                self.flag("round_crossed_two_levels")
        # --- C03 differential: per-order fill totals equal those of the reference walk
        if "C03" in self.oracles:
            ref_fills: Dict[int, int] = {}
            for b, a, v in ref_pairs:
                ref_fills[b.oid] = ref_fills.get(b.oid, 0) + v
                ref_fills[a.oid] = ref_fills.get(a.oid, 0) + v
            if premise == "both_market" and not logs:
                pass  # outside C03's premise: the engine's own decision not to run a round is accepted
            elif fills != ref_fills:
                raise Violation("C03.clears_every_executable_pair",
                                f"fills per order {fills} differ from the reference walk {ref_fills} (premise {premise})",
                                {"history_tail": self.hist[-12:]})
        # --- apply the ACTUAL fills to the model (so that a matching defect does not cascade into C08)
        for l in logs:
            M.apply_fill(M.orders[l.buy_order_id], M.orders[l.sell_order_id], l.volume, l.price)
        # --- C03 post-condition on the independent model state and on pams' own getters
        post = M.premise()
        if post == "crossed":
            self.fail("C03", "book_still_executable", f"after the round best bid {M.best(True).brief()} / "
                                                      f"best ask {M.best(False).brief()} are still executable")
        bd, sd = m.get_buy_order_book(), m.get_sell_order_book()
        if bd and sd:
            bb, ba = next(iter(bd)), next(iter(sd))
            if not (bb is None and ba is None):
                if bb is None or ba is None or not (bb < ba):
                    self.fail("C03", "book_still_executable_getters", f"best bid {bb!r} best ask {ba!r} after a round")
        self.compare("round")

    # -- drain probe: a deep sweep of one side on a copy of the market
    def op_drain(self, drain_buys: bool, frac: float, exact_volume: Optional[int] = None) -> None:
        """copy the real market (and the model), send one aggressive limit order that sweeps a fraction of the chosen side
        in a single round and apply the round oracles to it.  The history itself is not affected."""
        if not ({"C01", "C02", "C03"} & self.oracles):
            return
        side = self.M.book[drain_buys]
        total = sum(o.vol for o in side)
        if total == 0 or len(side) < 2:
            return
        sub = MarketRun.__new__(MarketRun)
        sub.case = dict(self.case, continuous=False)
        sub.oracles = self.oracles & {"C01", "C02", "C03"}
        sub.tick, sub.p0 = self.tick, self.p0
        sub.m = copy.deepcopy(self.m)
        sub.M = copy.deepcopy(self.M)
        sub.lg = sub.m.logger
        sub.log_pos = len(sub.lg.rec)
        sub.live, sub.by_id = [], {}
        sub.flags = self.flags
        sub.n_rounds = 0
        sub.hist = self.hist + [["drain-probe", drain_buys, frac]]
        sub.m._is_running = True
        sub.M.running = True
        vol = max(1, int(total * frac)) if exact_volume is None else exact_volume
        if drain_buys:
            price = self.tick  # a sell at the lowest grid price crosses every bid
        else:
            top = max([o.price for o in side if o.price is not None] + [self.p0])
            price = math.ceil(top * 4 / self.tick) * self.tick
        self.flag("drain_probe")
        if len({o.price for o in side}) >= 3 and len(side) >= 5:
            self.flag("deep_drain_probe")
        sub.last_round_logs = []
        sub.op_submit("L", not drain_buys, price, vol, None, 9)
        sub.round(continuous=False, incoming=None)
        if exact_volume is None and frac == 1.0 and "C01" in self.oracles:
            # the sweep shows the order in which the engine hands out fills; if limits along it are not monotone, a sweep
            # that stops right after the inversion must price an earlier-matched order through its limit: try exactly that
            lim, acc = [], 0
            for l in sub.last_round_logs:
                o = sub.M.orders[l.buy_order_id if drain_buys else l.sell_order_id]
                acc += l.volume
                if o.price is None:
                    continue
                if lim and ((not drain_buys and o.price < lim[-1]) or (drain_buys and o.price > lim[-1])):
                    self.flag("inversion_probe")
                    self.op_drain(drain_buys, 1.0, exact_volume=acc)
                    break
                lim.append(o.price)

    # -- peel probe: cancel the best order of one side a few times on a copy of the market
    def op_peel(self, side_is_buy: bool, k: int) -> None:
        """copy the real market, the model and the order handles together, then cancel the current best order of one side k
        times in a row, comparing quotes / depth / best order with the model after each removal.  The history is unaffected."""
        if not ({"C02", "C08"} & self.oracles) or len(self.M.book[side_is_buy]) < 3:
            return
        m2, M2, live2 = copy.deepcopy((self.m, self.M, self.live))
        sub = MarketRun.__new__(MarketRun)
        sub.case = dict(self.case, continuous=False, drain_after_cancel=False, peel_after_cancel=False)
        sub.oracles = self.oracles & {"C02", "C08"}
        sub.tick, sub.p0 = self.tick, self.p0
        sub.m, sub.M, sub.live = m2, M2, live2
        sub.lg = m2.logger
        sub.log_pos = len(sub.lg.rec)
        sub.by_id = {}
        sub.flags = self.flags
        sub.n_rounds = 0
        sub.last_round_logs = []
        sub.hist = self.hist + [["peel-probe", side_is_buy, k]]
        self.flag("peel_probe")
        for _ in range(k):
            best = M2.best(side_is_buy)
            if best is None:
                break
            idx = next(i for i, (_, mo) in enumerate(live2) if mo is best)
            sub.op_cancel(idx)

    # -- state comparison after every operation
    def reconcile(self) -> None:
        """C01-C03 speak about the orders that ARE in the book; which orders those are (lifetime, cancellation, accounting) is
        C04's and C08's subject.  When neither of those two is being checked, the model's membership and volumes follow the
        real book, so that a lifetime defect does not masquerade as a priority or matching defect."""
        real = {id(x) for x in self.m.buy_order_book.priority_queue} | {id(x) for x in self.m.sell_order_book.priority_queue}
        for o, mo in self.live:
            in_real = id(o) in real
            in_model = mo in self.M.book[mo.is_buy]
            if in_real and not in_model and o.volume > 0:
                mo.vol = o.volume
                mo.state = "rest"
                self.M.book[mo.is_buy].append(mo)
                self.flag("reconciled")
            elif in_model and not in_real:
                self.M.book[mo.is_buy].remove(mo)
                mo.state = "gone"
                self.flag("reconciled")
            elif in_model and in_real and mo.vol != o.volume and o.volume > 0:
                mo.vol = o.volume
                self.flag("reconciled")

    def compare(self, where: str) -> None:
        m, M = self.m, self.M
        O = self.oracles
        if not ({"C04", "C08"} & O):
            self.reconcile()
        if "C02" in O or "C08" in O:
            for side, book in ((True, m.buy_order_book), (False, m.sell_order_book)):
                best = book.get_best_order()
                want = M.best(side)
                if (best.order_id if best is not None else None) != (want.oid if want is not None else None):
                    self.fail("C02" if "C02" in O else "C08", "best_order",
                              f"after {where}: best {'buy' if side else 'sell'} order is "
                              f"#{best.order_id if best is not None else None}, priority ranking says "
                              f"{want.brief() if want is not None else None}")
        if "C04" in O or "C08" in O:
            p = "C08" if "C08" in O else "C04"
            bd, sd = list(m.get_buy_order_book().items()), list(m.get_sell_order_book().items())
            if bd != list(M.depth(True).items()):
                self.fail(p, "buy_depth", f"after {where}: buy depth {bd} expected {list(M.depth(True).items())}")
            if sd != list(M.depth(False).items()):
                self.fail(p, "sell_depth", f"after {where}: sell depth {sd} expected {list(M.depth(False).items())}")
        if "C04" in O:
            for o, mo in self.live:
                if mo.state == "rest":
                    if o.volume != mo.vol or o.volume <= 0:
                        self.fail("C04", "resting_volume", f"order {mo.oid} rests with volume {o.volume}, expected {mo.vol} > 0")
                if o.volume != mo.vol0 - mo.filled:
                    self.fail("C04", "volume_accounting", f"order {mo.oid}: accepted {mo.vol0}, filled {mo.filled}, "
                                                          f"object says {o.volume} left")
        if "C08" in O:
            t = M.t
            if m.get_time() != t:
                self.fail("C08", "time", f"{m.get_time()} vs {t}")
            bb, ba = M.best(True), M.best(False)
            if m.get_best_buy_price() != (bb.price if bb else None):
                self.fail("C08", "best_bid", f"after {where}: {m.get_best_buy_price()!r} expected {(bb.price if bb else None)!r}")
            if m.get_best_sell_price() != (ba.price if ba else None):
                self.fail("C08", "best_ask", f"after {where}: {m.get_best_sell_price()!r} expected {(ba.price if ba else None)!r}")
            if getattr(self, "jumped", False):
                return
            mp = m.get_market_prices()
            if mp != M.mp:
                self.fail("C08", "market_price", f"after {where} (running={M.running}): market prices {mp[-3:]} expected {M.mp[-3:]}")
            if m.get_market_price() != M.mp[t]:
                self.fail("C08", "market_price_now", f"{m.get_market_price()!r} vs {M.mp[t]!r}")
            mids = m.get_mid_prices()
            if mids != M.mid:
                self.fail("C08", "mid_price", f"after {where}: mid prices {mids[-3:]} expected {M.mid[-3:]}")
            lasts = m.get_last_executed_prices()
            if lasts != M.last:
                self.fail("C08", "last_executed_price", f"after {where}: {lasts[-3:]} expected {M.last[-3:]}")
            if m.get_executed_volumes() != M.vol:
                self.fail("C08", "executed_volume", f"after {where}: {m.get_executed_volumes()[-3:]} expected {M.vol[-3:]}")
            tots = m.get_executed_total_prices()
            if len(tots) != len(M.tot) or not all(math.isclose(x, y, rel_tol=1e-12, abs_tol=1e-12) for x, y in zip(tots, M.tot)):
                self.fail("C08", "turnover", f"after {where}: {tots[-3:]} expected {M.tot[-3:]}")
            if m.get_n_buy_orders() != M.nb or m.get_n_sell_orders() != M.ns:
                self.fail("C08", "order_counts", f"after {where}: buy {m.get_n_buy_orders()[-3:]} sell {m.get_n_sell_orders()[-3:]} "
                                                 f"expected {M.nb[-3:]} {M.ns[-3:]}")
            # the series getters asked for windows (newest first down to step 0, every other step, an explicit list)
            if t >= 1 and self.hist and len(self.hist) % 3 == 0:
                for gname in ("get_market_prices", "get_mid_prices", "get_last_executed_prices", "get_executed_volumes", "get_executed_total_prices",
                              "get_n_buy_orders", "get_n_sell_orders", "get_fundamental_prices"):
                    g = getattr(m, gname)
                    full = g()
                    for win in (range(t, -1, -1), range(0, t + 1, 2), [t, 0], range(t - 1, t + 1)):
                        gw = g(win)
                        if gw != [full[x] for x in win]:
                            self.fail("C08", "series_window", f"{gname}({win!r}) returned {gw[:4]}..., the full series gives {[full[x] for x in win][:4]}...")
            want = M.vwap()
            got = m.get_vwap()
            if math.isnan(want):
                if not math.isnan(got):
                    self.fail("C08", "vwap_nan", f"vwap {got!r} without any volume")
            elif not math.isclose(got, want, rel_tol=1e-9):
                self.fail("C08", "vwap", f"vwap {got!r} expected {want!r}")
            # VWAP asked for PAST steps: turnover and volume up to and including that step
            for tq in {0, t // 2, max(t - 1, 0)}:
                V = sum(M.vol[: tq + 1])
                gq = m.get_vwap(tq)
                if V == 0:
                    if not math.isnan(gq):
                        self.fail("C08", "vwap_nan", f"get_vwap({tq}) = {gq!r} without any volume up to that step")
                elif not math.isclose(gq, sum(M.tot[: tq + 1]) / V, rel_tol=1e-9):
                    self.fail("C08", "vwap_past", f"at time {t}: get_vwap({tq}) = {gq!r}, fills up to step {tq} imply {sum(M.tot[: tq + 1]) / V!r}")
            if m.is_running != M.running:
                self.fail("C08", "is_running", "")

    def finish(self) -> None:
        if "C04" in self.oracles:
            for o, mo in self.live:
                terminal = mo.terminal_volume if mo.terminal_volume is not None else (mo.vol if mo.state == "rest" else 0)
                if mo.vol0 != mo.filled + terminal:
                    self.fail("C04", "nothing_lost", f"order {mo.oid}: accepted {mo.vol0} != filled {mo.filled} + terminal/resting {terminal}")
                if mo.last_fill_time is not None:
                    if mo.ttl is not None and mo.last_fill_time > mo.t + mo.ttl:
                        self.fail("C04", "fill_after_expiry", f"order {mo.oid}")
                    if mo.ttl is not None and mo.last_fill_time == mo.t + mo.ttl:
                        self.flag("filled_in_last_step_of_life")

    def run(self) -> None:
        self.start()
        for op in self.case["ops"]:
            self.hist.append(op)
            k = op[0]
            if k == "L":
                self.op_submit("L", op[1], op[2], op[3], op[4], op[5])
            elif k == "M":
                self.op_submit("M", op[1], None, op[2], op[3], op[4])
            elif k == "C":
                self.op_cancel(op[1], bool(op[2]) if len(op) > 2 else False)
            elif k == "T":
                self.op_tick()
            elif k == "J":
                self.op_jump(op[1])
            elif k == "R":
                self.op_running(op[1])
            elif k == "X":
                if self.M.running:
                    self.round(continuous=False, incoming=None)
            elif k == "CB":
                # cancel the current best order of one side (found through the model's ranking)
                best = self.M.best(op[1])
                if best is not None:
                    idx = next(i for i, (_, mo) in enumerate(self.live) if mo is best)
                    self.op_cancel(idx)
            elif k == "D":
                self.op_drain(op[1], op[2])
            elif k == "RS":
                self.op_resubmit(op[1])
            elif k == "FM":
                self.op_foreign(op[1], op[2], op[3])
            else:
                raise ValueError(f"unknown op {op!r}")
        if self.case.get("final_drain", True):
            for drain_buys in (True, False):
                self.hist.append(["D", drain_buys, 0.5])
                self.op_drain(drain_buys, 0.5)
        self.finish()


class Desync(Exception):
    """the real market produced a fill the model cannot follow (reported by C01/C04; other oracles stop here)."""


def run_market_case(case: Dict[str, Any], oracles: Set[str]) -> MarketRun:
    run = MarketRun(case, oracles)
    try:
        run.run()
    except Desync:
        run.flag("desync")
    return run


# ---------------------------------------------------------------------------------------------------------------
# strategies

TICKS = [1.0, 0.5, 0.25, 0.1, 0.01, 1e-5, 0.3, 7.0, 0.125, 2.5]
P0S = [100.0, 300.0, 10.5, 1000.0, 7.25, 50.0]


@st.composite
def market_cases(draw, max_ops: int = 60, market_frac: int = 2, illegal: bool = False, few_levels: bool = False,
                 batch_bias: bool = False, toggles: bool = True, max_volume: int = 10000, match_weight: int = 2,
                 pre_ticks: bool = False, deep: bool = False, nonpositive: bool = False, jumps: bool = False):
    tick = draw(st.one_of(st.sampled_from(TICKS), st.floats(min_value=1e-3, max_value=20.0, allow_nan=False).filter(lambda x: x > 0)))
    p0 = draw(st.one_of(st.sampled_from(P0S), st.floats(min_value=5.0, max_value=5000.0, allow_nan=False)))
    if p0 < 8 * tick:
        p0 = 8 * tick + p0
    continuous = draw(st.booleans()) if not batch_bias else draw(st.sampled_from([False, False, False, True]))
    running0 = draw(st.sampled_from([True, True, True, False])) if toggles else True
    width = draw(st.sampled_from([1, 2, 3, 6])) if few_levels else draw(st.sampled_from([2, 4, 6]))
    base = math.floor(p0 / tick) * tick
    grid = st.integers(min_value=-width, max_value=width).map(lambda k: base + k * tick)
    offgrid = st.floats(min_value=-width, max_value=width, allow_nan=False).map(lambda x: base + x * tick)
    price = st.one_of(grid, grid, grid, offgrid) if few_levels else st.one_of(grid, grid, offgrid)
    price = price.filter(lambda p: p > 0)
    if not deep and draw(st.integers(0, 9)) == 0:
        # a price/tick ratio of a few 1e9 (e.g. tick 1e-5 at a price of 30000, or tick 1 at 3e9): neighbouring levels differ
        # by less than 1e-9 relative
        tick = draw(st.sampled_from([1.0, 1e-5, 0.5]))
        p0 = tick * draw(st.sampled_from([3e9, 5e9, 2.0 ** 32]))
        base = p0
        price = st.integers(min_value=-4, max_value=4).map(lambda k: base + k * tick)
    elif nonpositive:
        # limit prices around zero: pams accepts zero and negative prices (with a warning)
        p0 = 4 * tick
        base = 0.0
        price = st.integers(min_value=-5, max_value=5).map(lambda k: k * tick)
    elif not deep and draw(st.integers(0, 5)) == 0:
        # a penny-stock history: the reference price is a few ticks, some limits lie below one tick
        p0 = 3 * tick
        base = 3 * tick
        price = st.one_of(st.integers(1, 6).map(lambda k: k * tick), st.floats(min_value=0.05, max_value=5.0, allow_nan=False).map(lambda x: x * tick))
    if deep:
        # a deep, mostly uncrossed book: bids below and offers above the reference price on many distinct levels
        far_bid = st.integers(min_value=0, max_value=14).map(lambda k: base - k * tick)
        far_ask = st.integers(min_value=1, max_value=14).map(lambda k: base + k * tick)
        p0 = max(p0, 16 * tick + p0)
        base = math.floor(p0 / tick) * tick
    volume = st.one_of(st.integers(1, 5), st.integers(1, 5), st.integers(1, 40), st.integers(1, max_volume))
    ttl = st.sampled_from([None, None, 1, 1, 2, 3, 5])
    agent = st.integers(0, 2)
    limit = st.tuples(st.just("L"), st.booleans(), price, volume, ttl, agent)
    if deep:
        small = st.integers(1, 4)
        long_ttl = st.sampled_from([None, None, None, 5, 9])
        limit = st.one_of(st.tuples(st.just("L"), st.just(True), far_bid, small, long_ttl, agent),
                          st.tuples(st.just("L"), st.just(False), far_ask, small, long_ttl, agent),
                          st.tuples(st.just("L"), st.just(True), far_bid, small, long_ttl, agent),
                          st.tuples(st.just("L"), st.just(False), far_ask, small, long_ttl, agent),
                          limit)
    market = st.tuples(st.just("M"), st.booleans(), volume, ttl, agent)
    cancel = st.tuples(st.just("C"), st.integers(0, 200), st.sampled_from([False, False, False, True]))
    tick_op = st.just(("T",))
    run_op = st.tuples(st.just("R"), st.sampled_from([True, True, False]))
    match = st.just(("X",))
    alts = [limit] * 8 + [market] * market_frac + [cancel] * (6 if deep else 3) + [tick_op] * (1 if deep else 3) + [match] * match_weight
    alts += [st.tuples(st.just("D"), st.booleans(), st.sampled_from([0.3, 0.5, 0.8, 1.0]))]
    if jumps:
        alts += [st.tuples(st.just("J"), st.sampled_from([2, 3, 6, 12, 120, 205]))]
    if deep:
        alts += [st.tuples(st.just("CB"), st.booleans())] * 4
    if toggles:
        alts += [run_op]
    if illegal:
        alts += [st.tuples(st.just("RS"), st.integers(0, 200)),
                 st.tuples(st.just("FM"), st.booleans(), price, st.integers(1, 5))]
    n_ops = draw(st.integers(min_value=1, max_value=max_ops))
    ops = draw(st.lists(st.one_of(*alts), min_size=n_ops, max_size=n_ops))
    if toggles and not deep and draw(st.integers(0, 2)) == 0:
        # a book that crosses while the market is closed, is carried over one or two clock steps and is cleared by the round that
        # the first order after the re-opening triggers
        n_pre = draw(st.integers(3, 7))
        pre = [("R", False)] + draw(st.lists(st.one_of(limit, limit, limit, market), min_size=n_pre, max_size=n_pre))
        if draw(st.booleans()):
            pre += [("CB", draw(st.booleans()))]  # the best order of a side withdrawn while the market is closed
        pre += [("T",)] * draw(st.integers(1, 2)) + [("R", True)]
        at = draw(st.integers(0, min(len(ops), 10)))
        ops = ops[:at] + pre + ops[at:]
    case = {"tick": tick, "p0": p0, "continuous": continuous, "running0": running0, "ops": [list(o) for o in ops]}
    case["rewrite_every"] = draw(st.sampled_from([None, None, None, 2, 3]))
    if draw(st.integers(0, 3)) == 0:
        case["extra_settings"] = draw(st.sampled_from([{"tradeVolume": 90}, {"outstandingShares": 1000}, {"tradeVolume": 7, "outstandingShares": 25000, "fundamentalPrice": p0 * 2}]))
    if deep:
        case["drain_after_cancel"] = True
        case["peel_after_cancel"] = True
    if pre_ticks:
        # start the history shortly before one of the 100-step storage chunks ends
        case["pre_ticks"] = draw(st.sampled_from([0, 0, 0, 97, 98, 99, 198, 199]))
    return case
