"""Hypothesis strategies for simulation cases (kind C): configurations are built by construction, never by rejection."""
from typing import Any, Dict, List, Optional

from hypothesis import strategies as st

TICKS = [1.0, 0.5, 0.25, 0.1, 0.01, 1e-5]
PRICES = [100.0, 300.0, 50.5, 1000.0]
OFFS = [-6, -4, -3, -2, -1, 0, 1, 2, 3, 4, 6]


def spec_strategy(offs=OFFS, market_orders=True, cancels=True, offgrid=True, volumes=(1, 4), ttls=(None, 1, 2, 5),
                  own_cancel=True, illegal=False, n_mi=4, rel_fracs=None, edge_rates=None):
    off = st.sampled_from(offs)
    if offgrid:
        off = st.one_of(off, off, st.floats(min_value=min(offs), max_value=max(offs), allow_nan=False))
    vol = st.integers(*volumes)
    ttl = st.sampled_from(list(ttls))
    mi = st.integers(0, n_mi - 1)
    alts = [st.tuples(st.just("L"), mi, st.booleans(), off, vol, ttl)] * 7
    if rel_fracs:
        alts += [st.tuples(st.just("P"), mi, st.booleans(), st.sampled_from(list(rel_fracs)), vol, ttl)] * 4
    if edge_rates:
        alts += [st.tuples(st.just("E"), mi, st.booleans(), st.sampled_from(list(edge_rates)), vol, ttl)] * 2
    if market_orders:
        alts += [st.tuples(st.just("M"), mi, st.booleans(), vol, ttl)]
    if cancels:
        alts += [st.tuples(st.just("C"), st.integers(0, 7))] * 2
    if own_cancel:
        alts += [st.tuples(st.just("OC"), mi, st.booleans(), off, vol)]
    if illegal:
        alts += [st.one_of(st.tuples(st.just("RS"), st.integers(0, 7)), st.tuples(st.just("RS"), st.integers(0, 7)),
                           st.tuples(st.just("FA"), mi, st.integers(0, 7)), st.tuples(st.just("CO"), st.integers(0, 7)))]
    return st.one_of(*alts).map(list)


@st.composite
def program_strategy(draw, spec, max_actions=5, max_specs=3, decline_weight=1):
    """a program: 2..max_actions actions, each either a decline ([]) or 1..max_specs order/cancel specs.
    Lengths are drawn explicitly so that programs are not dominated by Hypothesis' preference for tiny lists."""
    n = draw(st.integers(min_value=min(2, max_actions), max_value=max_actions))
    out = []
    for _ in range(n):
        if decline_weight and draw(st.integers(0, 2 + decline_weight)) < decline_weight:
            out.append([])
        else:
            k = draw(st.integers(1, max_specs))
            out.append(draw(st.lists(spec, min_size=k, max_size=k)))
    if all(len(a) == 0 for a in out):
        out[0] = [draw(spec)]
    return out


@st.composite
def market_settings(draw, name: str, vol_zero: Optional[bool] = None, ticks=TICKS, shares=True):
    d = {"class": draw(st.sampled_from(["Market", "Market", "Market", "VForwardingMarket"])), "tickSize": draw(st.sampled_from(ticks)), "marketPrice": draw(st.sampled_from(PRICES))}
    if shares:
        d["outstandingShares"] = draw(st.sampled_from([100, 200, 300, 1000, 12345]))
    zero = draw(st.booleans()) if vol_zero is None else vol_zero
    d["fundamentalVolatility"] = 0.0 if zero else draw(st.sampled_from([0.001, 0.01, 0.05]))
    d["fundamentalDrift"] = draw(st.sampled_from([0.0, 0.0, 0.001, -0.002]))
    if draw(st.integers(0, 3)) == 0:
        d["fundamentalPrice"] = draw(st.sampled_from(PRICES))
    if draw(st.integers(0, 4)) == 0:
        d["tradeVolume"] = draw(st.sampled_from([10, 90]))  # a documented optional key of Market.setup; statistics start empty all the same
    return d


@st.composite
def session_settings(draw, idx: int, steps=(1, 8), placement=None, execution=None, caps=(0, 4), hcaps=(0, 3),
                     rates=(0.0, 1.0, 0.5)):
    return {
        "sessionName": idx,
        "iterationSteps": draw(st.integers(*steps)) if isinstance(steps, tuple) else draw(steps),
        "withOrderPlacement": draw(st.sampled_from([True] * 6 + [False])) if placement is None else placement,
        "withOrderExecution": draw(st.sampled_from([True] * 7 + [False] * 3)) if execution is None else execution,
        "withPrint": False,
        "maxNormalOrders": draw(st.integers(*caps)),
        "maxHighFrequencyOrders": draw(st.integers(*hcaps)),
        "highFrequencySubmitRate": draw(st.sampled_from(list(rates))),
    }


HOOK_TYPES = ["order", "cancel", "execution", "session", "market"]


@st.composite
def hook_specs(draw, horizon: int = 25, max_hooks: int = 5):
    out = []
    for _ in range(draw(st.integers(1, max_hooks))):
        typ = draw(st.sampled_from(HOOK_TYPES))
        before = False if typ == "execution" else draw(st.booleans())
        r = draw(st.integers(0, 8))
        # no list (always), an empty list (never: e.g. a computed window of length 0), or 1-6 distinct times
        tl = None if r < 3 else ([] if r == 3 else sorted(draw(st.sets(st.integers(0, horizon), min_size=1, max_size=6))))
        cls = inst = None
        if typ == "market":
            if draw(st.integers(0, 2)) == 0:
                cls = draw(st.sampled_from(["Market", "IndexMarket"]))
            if draw(st.integers(0, 2)) == 0:
                inst = draw(st.integers(0, 3))
        out.append([typ, before, tl, cls, inst])
    return out


@st.composite
def sim_cases(draw, n_markets=(1, 3), index_prob=2, vol_zero=None, ticks=TICKS, groups=(1, 2), agents_per_group=(1, 4),
              hft=True, builtin=False, n_sessions=(1, 3), steps=(1, 8), placement=None, execution=None, caps=(0, 4),
              hcaps=(0, 3), rates=(0.0, 1.0, 0.5), probes=True, spec=None, illegal=False, correlations=False,
              max_actions=5, horizon=25, decline_weight=1, always_events=False, cash=(1000, 10000.5, 1e6),
              random_endowment=False, rules=False, mistake=False):
    nm = draw(st.integers(*n_markets))
    names = [f"M{i}" for i in range(nm)]
    cfg: Dict[str, Any] = {"simulation": {"markets": list(names), "agents": [], "sessions": []}}
    for n in names:
        cfg[n] = draw(market_settings(n, vol_zero=vol_zero, ticks=ticks))
    all_markets = list(names)
    if nm >= 2 and index_prob and draw(st.integers(0, index_prob)) == 0:
        comps = names[: draw(st.integers(2, min(3, nm)))]
        cfg["IDX"] = {"class": "IndexMarket", "tickSize": draw(st.sampled_from(ticks)), "marketPrice": draw(st.sampled_from(PRICES)),
                      "markets": comps}
        if len(comps) < nm and draw(st.booleans()):
            # the index entry listed right after its components, BEFORE a market it does not contain
            cfg["simulation"]["markets"].insert(len(comps), "IDX")
        else:
            cfg["simulation"]["markets"].append("IDX")
        all_markets.append("IDX")
        if draw(st.integers(0, 3)) == 0:
            # an index of indices (listed after its component index, the only order pams supports)
            cfg["IDX"]["outstandingShares"] = draw(st.sampled_from([10, 500]))
            cfg["IDX2"] = {"class": "IndexMarket", "tickSize": draw(st.sampled_from(ticks)), "marketPrice": draw(st.sampled_from(PRICES)),
                           "markets": ["IDX", draw(st.sampled_from(names))]}
            cfg["simulation"]["markets"].append("IDX2")
            all_markets.append("IDX2")
    if correlations:
        volm = [n for n in names if cfg[n]["fundamentalVolatility"] > 0]
        if len(volm) >= 2 and draw(st.booleans()):
            cfg["simulation"]["fundamentalCorrelations"] = {"pairwise": [[volm[0], volm[1], draw(st.sampled_from([-0.8, -0.3, 0.5, 0.9]))]]}
    if illegal:
        illegal = draw(st.integers(0, 2)) == 0  # a third of the cases contain illegal actions
    spec = spec if spec is not None else spec_strategy(illegal=illegal)
    prog = program_strategy(spec, max_actions=max_actions, decline_weight=decline_weight)
    for g in range(draw(st.integers(*groups))):
        gname = f"A{g}"
        acc = draw(st.lists(st.sampled_from(all_markets), min_size=1, max_size=len(all_markets), unique=True))
        cfg[gname] = {"class": draw(st.sampled_from(["VScriptedAgent", "VScriptedAgent", "VScriptedAgentSub"])), "numAgents": draw(st.integers(*agents_per_group)), "markets": acc,
                      "assetVolume": draw(st.integers(0, 50)), "cashAmount": draw(st.sampled_from(list(cash))),
                      "scripts": draw(st.lists(prog, min_size=1, max_size=3))}
        if random_endowment and draw(st.booleans()):
            # randomised endowments: one draw per accessible market, in the order the runner visits them
            cfg[gname]["assetVolume"] = draw(st.sampled_from([[10, 100], {"uniform": [5, 60]}, {"normal": [50, 5]}]))
            cfg[gname]["cashAmount"] = draw(st.sampled_from([[1000, 2000], {"expon": [5000]}, 7777]))
        cfg["simulation"]["agents"].append(gname)
    if hft and draw(st.integers(0, 2)) > 0:
        acc = draw(st.lists(st.sampled_from(all_markets), min_size=1, max_size=len(all_markets), unique=True))
        cfg["H0"] = {"class": draw(st.sampled_from(["VScriptedHFT", "VScriptedHFT", "VScriptedHFTLate"])), "numAgents": draw(st.integers(1, 3)), "markets": acc, "assetVolume": 10,
                     "cashAmount": 1000, "scripts": draw(st.lists(prog, min_size=1, max_size=2))}
        cfg["simulation"]["agents"].append("H0")
    if builtin:
        add_builtin_agents(draw, cfg, names, all_markets)
    ns = draw(st.integers(*n_sessions))
    evn = 0
    for s in range(ns):
        ses = draw(session_settings(s, steps=steps, placement=placement, execution=execution, caps=caps, hcaps=hcaps, rates=rates))
        if probes and (always_events or draw(st.integers(0, 3)) > 0):
            evs = []
            for _ in range(draw(st.integers(1, 2))):
                en = f"E{evn}"
                evn += 1
                cfg[en] = {"class": "VProbeEvent", "hooks": draw(hook_specs(horizon=horizon))}
                evs.append(en)
            ses["events"] = evs
        cfg["simulation"]["sessions"].append(ses)
    if ns >= 2 and draw(st.integers(0, 5)) == 0:
        # a session of zero steps (e.g. a break): it still begins and ends, its hooks still fire, the clock does not move
        cfg["simulation"]["sessions"][draw(st.integers(0, ns - 1))]["iterationSteps"] = 0
        if all(s_["iterationSteps"] == 0 for s_ in cfg["simulation"]["sessions"]):
            cfg["simulation"]["sessions"][0]["iterationSteps"] = 1
    if mistake and draw(st.integers(0, 2)) == 0:
        # a fat-finger event somewhere in the run: it rewrites one pending order; acceptance rules apply to the rewritten order as well
        si = draw(st.integers(0, ns - 1))
        cfg["OMS"] = {"class": "OrderMistakeShock", "target": draw(st.sampled_from(names)), "triggerTime": draw(st.integers(0, 4)),
                      "priceChangeRate": draw(st.sampled_from([0.05, -0.05])), "orderVolume": draw(st.integers(1, 9)), "orderTimeLength": draw(st.integers(1, 6))}
        ses = cfg["simulation"]["sessions"][si]
        ses["events"] = list(ses.get("events", [])) + ["OMS"]
    if rules and draw(st.booleans()):
        # a shipped circuit breaker around the same traffic: fills that stop a market in the middle of a round
        targets = draw(st.lists(st.sampled_from(names), min_size=1, max_size=len(names), unique=True))
        cfg["HALT"] = {"class": "TradingHaltRule", "targetMarkets": targets, "triggerChangeRate": draw(st.sampled_from([0.002, 0.005, 0.01, 0.03])),
                       "haltingTimeLength": draw(st.integers(0, 4))}
        ses = cfg["simulation"]["sessions"][draw(st.integers(0, ns - 1))]
        ses["events"] = list(ses.get("events", [])) + ["HALT"]
    return {"config": cfg, "seed": draw(st.integers(0, 2**31 - 1))}


NAME_SCHEMES = [["M0", "M1", "M2", "M3"], ["M1", "M10", "M", "M11"], ["Spot", "Spot-1", "aSpot", "Spot-10"], ["m0", "M0", "M00", "M000"]]


def market_names(draw, n):
    """n distinct market names; three schemes in four make names prefixes / suffixes / case variants of one another (events,
    index markets and agents refer to markets by exact name)."""
    names = draw(st.sampled_from(NAME_SCHEMES))[:n]
    return names[::-1] if draw(st.booleans()) else list(names)


def via_templates(draw, cfg, name):
    """move some settings of an event entry into a template it 'extends' (one case in two); in half of those the template itself
    extends a root template that holds DIFFERENT values for the same keys -- the nearest definition counts."""
    mode = draw(st.sampled_from(["none", "none", "one", "two"]))
    entry = cfg[name]
    keys = sorted(k for k in entry if k not in ("class", "extends"))
    if mode == "none" or not keys:
        return mode
    moved = draw(st.lists(st.sampled_from(keys), min_size=1, max_size=len(keys), unique=True))
    t1 = f"T1_{name}"
    cfg[t1] = {k: entry.pop(k) for k in moved}
    entry["extends"] = t1
    if mode == "two":
        def decoy(v):
            if isinstance(v, bool):
                return not v
            if isinstance(v, int):
                return v + 3
            if isinstance(v, float):
                return v * 2 + 0.01
            return v
        t2 = f"T2_{name}"
        cfg[t2] = {k: decoy(v) for k, v in cfg[t1].items()}
        cfg[t1]["extends"] = t2
    return mode


def resolved_config(cfg):
    """the configuration with every 'extends' chain resolved by the reference resolver (what each entry means)"""
    import copy

    from .models import ref_json_extends
    out = copy.deepcopy(cfg)
    for k, v in cfg.items():
        if isinstance(v, dict) and "extends" in v:
            out[k] = ref_json_extends(cfg, k, v, ["numMarkets", "numAgents", "from", "to", "prefix"])
    return out


def jvalue(draw, const, lo, hi):
    """a parameter the documentation allows to be a constant or a distribution (JsonRandom): one of the documented forms."""
    form = draw(st.sampled_from(["plain", "plain", "const", "range", "uniform"]))
    if form == "plain":
        return const
    if form == "const":
        return {"const": [const]}
    return [lo, hi] if form == "range" else {"uniform": [lo, hi]}


def add_builtin_agents(draw, cfg, names, all_markets, kinds=("fcn", "msfcn", "maker", "test", "arb")):
    """background populations of (traced) built-in agents with admissible parameters."""
    chosen = draw(st.lists(st.sampled_from(list(kinds)), min_size=1, max_size=3, unique=True))
    fcn_common = {
        "assetVolume": 50, "cashAmount": 10000,
        "fundamentalWeight": {"expon": [1.0]}, "chartWeight": {"expon": [draw(st.sampled_from([0.0, 0.2]))]},
        "noiseWeight": {"expon": [1.0]}, "noiseScale": jvalue(draw, 0.001, 0.0005, 0.002), "timeWindowSize": [5, 20],
        "orderMargin": [0.0, draw(st.sampled_from([0.01, 0.1]))],
    }
    if draw(st.booleans()):
        fcn_common["meanReversionTime"] = jvalue(draw, 10, 5, 30)
    for kname in chosen:
        if kname == "fcn":
            cfg["BF"] = dict(fcn_common, **{"class": "VTracedFCNAgent", "numAgents": draw(st.integers(1, 6)), "markets": list(all_markets),
                                            "marginType": draw(st.sampled_from(["fixed", "normal"]))})
            cfg["simulation"]["agents"].append("BF")
        elif kname == "msfcn":
            cfg["BS"] = dict(fcn_common, **{"class": "VTracedMarketShareFCNAgent", "numAgents": draw(st.integers(1, 4)), "markets": list(names)})
            cfg["simulation"]["agents"].append("BS")
        elif kname == "maker":
            cfg["BM"] = {"class": "VTracedMarketMakerAgent", "numAgents": 1, "markets": list(names), "assetVolume": 50, "cashAmount": 10000,
                         "targetMarket": names[0], "netInterestSpread": jvalue(draw, draw(st.sampled_from([0.02, 0.05])), 0.01, 0.06),
                         "orderTimeLength": jvalue(draw, draw(st.integers(1, 4)), 1, 6)}
            cfg["simulation"]["agents"].append("BM")
        elif kname == "test":
            cfg["BT"] = {"class": "VTracedTestAgent", "numAgents": draw(st.integers(1, 4)), "markets": list(all_markets), "assetVolume": 50, "cashAmount": 10000}
            cfg["simulation"]["agents"].append("BT")
        elif kname == "arb" and "IDX" in cfg:
            comps = cfg["IDX"]["markets"]
            if len({cfg[c]["outstandingShares"] for c in comps}) == 1:
                cfg["BA"] = {"class": "VTracedArbitrageAgent", "numAgents": draw(st.integers(1, 2)), "markets": list(all_markets), "assetVolume": 50,
                             "cashAmount": 10000, "orderVolume": 1, "orderThresholdPrice": draw(st.sampled_from([0.5, 1.0, 5.0])),
                             "orderTimeLength": draw(st.integers(1, 3))}
                cfg["simulation"]["agents"].append("BA")


def crossing_pair(markets, ttl=3, volume=1):
    """a deterministic background group of two agents that alternately bid above and offer below the market price on
    every listed market, so that trades (and price moves) happen whenever the session executes."""
    n = len(markets)
    prog = [[["L", i, True, 1, volume, ttl]] for i in range(n)] + [[["L", i, False, -1, volume, ttl]] for i in range(n)]
    return {"class": "VScriptedAgent", "numAgents": 2, "markets": list(markets), "assetVolume": 10, "cashAmount": 1000, "scripts": [prog]}


# ---------------------------------------------------------------------------------------------------------------
# the repository's own sample configurations, scaled down and with recording agent classes

SAMPLES = ["CI2002", "fat_finger", "price_limit", "shock_transfer", "test", "trading_halt"]
TRACED_NAME = {"FCNAgent": "VTracedFCNAgent", "ArbitrageAgent": "VTracedArbitrageAgent", "MarketMakerAgent": "VTracedMarketMakerAgent",
               "MarketShareFCNAgent": "VTracedMarketShareFCNAgent", "TestAgent": "VTracedTestAgent"}


def load_sample(name: str) -> Dict[str, Any]:
    import json
    import os

    from .common import REPO_DIR

    with open(os.path.join(REPO_DIR, "samples", name, "config.json")) as f:
        return json.load(f)


@st.composite
def sample_cases(draw, traced: bool = True, probe: bool = True):
    """samples/<name>/config.json with 100 -> 4..30 agents per group and 100+500 -> (10..40)+(30..140) steps; everything else
    (fundamentals, events, agent parameter distributions, extends chains, market groups) is kept as shipped."""
    name = draw(st.sampled_from(SAMPLES))
    cfg = load_sample(name)
    n_agents = draw(st.integers(4, 30))
    for k, v in cfg.items():
        if isinstance(v, dict) and v.get("numAgents"):
            v["numAgents"] = min(v["numAgents"], n_agents)
        if traced and isinstance(v, dict) and v.get("class") in TRACED_NAME:
            v["class"] = TRACED_NAME[v["class"]]
    ses = cfg["simulation"]["sessions"]
    first = draw(st.integers(10, 40))
    second = draw(st.sampled_from([30, 60, 99, 101, 140]))
    for i, s_ in enumerate(ses):
        old = s_["iterationSteps"]
        s_["iterationSteps"] = first if i == 0 else second
        s_["withPrint"] = False
        if draw(st.booleans()):
            s_["maxNormalOrders"] = draw(st.integers(1, 4))
    # event times of the samples refer to the second session: keep them inside the shortened session
    for k, v in cfg.items():
        if isinstance(v, dict) and "triggerTime" in v:
            v["triggerTime"] = draw(st.integers(0, max(0, second - 5)))
    if probe:
        cfg["VP"] = {"class": "VProbeEvent", "hooks": [["execution", False, None, None, None], ["market", True, None, None, None]]}
        ses[0].setdefault("events", [])
        ses[0]["events"] = ["VP"] + list(ses[0]["events"])
    return {"config": cfg, "seed": draw(st.integers(0, 2**31 - 1)), "sample": name}
