"""Reference models written from the property statements (not from the implementation)."""
import collections
import math
from fractions import Fraction
from typing import Any, Dict, List, Optional, Tuple


# ---------------------------------------------------------------------------------------------------------------
# tick rounding oracle (C19)

EPS = Fraction(1, 2**50)  # a few ulps: one rounding in the float quotient, one in the float product


def is_power_of_two(x: float) -> bool:
    m, _ = math.frexp(x)
    return x > 0 and m == 0.5


def tick_violation(price: float, tick: float, accepted: float, is_buy: bool) -> Optional[str]:
    """None if ``accepted`` is an admissible tick-rounding of ``price`` per C19, else a message.

    * price an exact multiple of tick (in exact arithmetic on the float values): accepted unchanged;
    * tick a power of two (tick, price and their quotient exactly representable): exactly floor/ceil(P/T)*T;
    * otherwise "up to floating-point representation of the grid": accepted/tick within a few ulps of an integer,
      never more aggressive than the submitted price by more than a few ulps of it, moved by less than one tick
      plus a few ulps of the price.
    """
    P, T, A = Fraction(price), Fraction(tick), Fraction(accepted)
    side = "buy" if is_buy else "sell"
    if P % T == 0:
        return None if A == P else f"on-grid {side} price {price!r} (tick {tick!r}) was changed to {accepted!r}"
    if is_power_of_two(tick):
        q = P / T
        k = math.floor(q) if is_buy else math.ceil(q)
        if A != k * T:
            return f"exact domain: {side} {price!r} tick {tick!r} -> {accepted!r}, expected {float(k * T)!r}"
        return None
    r = A / T
    k = round(r)
    if abs(r - k) > abs(k) * EPS:
        return f"accepted {side} price {accepted!r} is not on the grid of tick {tick!r} (asked {price!r})"
    slack = P * EPS
    if is_buy:
        if not (A <= P + slack):
            return f"buy price moved up (more aggressive): {price!r} -> {accepted!r} tick {tick!r}"
        if not (P - A < T + slack):
            return f"buy price moved down by a tick or more: {price!r} -> {accepted!r} tick {tick!r}"
    else:
        if not (A >= P - slack):
            return f"sell price moved down (more aggressive): {price!r} -> {accepted!r} tick {tick!r}"
        if not (A - P < T + slack):
            return f"sell price moved up by a tick or more: {price!r} -> {accepted!r} tick {tick!r}"
    return None


# ---------------------------------------------------------------------------------------------------------------
# order book + price state machine (C01 C02 C03 C04 C08)


class MO:
    """model order."""

    __slots__ = ("oid", "is_buy", "price", "vol", "vol0", "t", "ttl", "agent", "state", "filled", "terminal_volume",
                 "last_fill_time", "asked")

    def __init__(self, oid, is_buy, price, vol, t, ttl, agent):
        self.oid = oid
        self.is_buy = is_buy
        self.price = price
        self.vol = vol
        self.vol0 = vol
        self.t = t
        self.ttl = ttl
        self.agent = agent
        self.state = "rest"
        self.filled = 0
        self.terminal_volume = None
        self.last_fill_time = None
        self.asked = price  # the limit as submitted (before tick rounding); set by the harness

    def key(self) -> Tuple:
        """priority per C02: market orders first, better price, earlier acceptance, lower id."""
        if self.price is None:
            return (0, 0, self.t, self.oid)
        return (1, -self.price if self.is_buy else self.price, self.t, self.oid)

    def brief(self):
        return [self.oid, "B" if self.is_buy else "S", self.price, self.vol, self.t, self.ttl]


class BookModel:
    def __init__(self, tick: float, p0: float):
        self.tick = tick
        self.p0 = p0
        self.t = -1
        self.running = False
        self.book: Dict[bool, List[MO]] = {True: [], False: []}
        self.orders: Dict[int, MO] = {}
        self.nid = 0
        self.mp: List[Optional[float]] = []
        self.mid: List[Optional[float]] = []
        self.last: List[Optional[float]] = []
        self.vol: List[int] = []
        self.tot: List[float] = []
        self.nb: List[int] = []
        self.ns: List[int] = []

    # -- book views
    def sorted_side(self, is_buy: bool) -> List[MO]:
        return sorted(self.book[is_buy], key=MO.key)

    def best(self, is_buy: bool) -> Optional[MO]:
        b = self.book[is_buy]
        return min(b, key=MO.key) if b else None

    def depth(self, is_buy: bool) -> "collections.OrderedDict":
        d: "collections.OrderedDict" = collections.OrderedDict()
        for o in self.sorted_side(is_buy):
            d[o.price] = d.get(o.price, 0) + o.vol
        return d

    def premise(self) -> str:
        """'empty' (a side is empty), 'both_market' (both best orders are market orders),
        'crossed' (executable with at least one limit best), 'clear' (both limit, bid < ask)."""
        bb, ba = self.best(True), self.best(False)
        if bb is None or ba is None:
            return "empty"
        if bb.price is None and ba.price is None:
            return "both_market"
        if bb.price is None or ba.price is None:
            return "crossed"
        return "crossed" if bb.price >= ba.price else "clear"

    # -- transitions
    def refresh(self) -> None:
        bb, ba = self.best(True), self.best(False)
        if bb is not None and ba is not None and bb.price is not None and ba.price is not None:
            self.mid[self.t] = (ba.price + bb.price) / 2.0
        else:
            self.mid[self.t] = None
        if self.running:
            if self.last[self.t] is not None:
                self.mp[self.t] = self.last[self.t]
            elif self.mid[self.t] is not None:
                self.mp[self.t] = self.mid[self.t]

    def clock_jump(self, k: int) -> List[MO]:
        """the clock set k >= 1 steps ahead at once (Market._set_time): orders whose lifetime ended anywhere in between leave the
        book at the jump.  (The price series of the skipped steps are not modelled: C08 is not judged on histories with jumps.)"""
        for _ in range(k - 1):
            self.clock_step(expire=False)
        return self.clock_step()

    def clock_step(self, expire: bool = True) -> List[MO]:
        self.t += 1
        expired = []
        for side in (True, False) if expire else ():
            keep = []
            for o in self.book[side]:
                if o.ttl is not None and o.t + o.ttl < self.t:
                    o.state = "expired"
                    o.terminal_volume = o.vol
                    expired.append(o)
                else:
                    keep.append(o)
            self.book[side] = keep
        if self.t == 0:
            self.mp.append(self.p0)
            self.mid.append(None)
            self.last.append(None)
        else:
            self.last.append(self.last[-1])
            self.mid.append(self.mid[-1])
            prev = self.mp[-1]
            if self.running:
                if self.last[self.t - 1] is not None:
                    prev = self.last[self.t - 1]
                elif self.mid[self.t - 1] is not None:
                    prev = self.mid[self.t - 1]
            self.mp.append(prev)
        self.vol.append(0)
        self.tot.append(0.0)
        self.nb.append(0)
        self.ns.append(0)
        return expired

    def add(self, is_buy: bool, price: Optional[float], vol: int, ttl: Optional[int], agent: int) -> MO:
        o = MO(self.nid, is_buy, price, vol, self.t, ttl, agent)
        self.nid += 1
        self.orders[o.oid] = o
        self.book[is_buy].append(o)
        self.refresh()
        if is_buy:
            self.nb[self.t] += 1
        else:
            self.ns[self.t] += 1
        return o

    def cancel(self, o: MO) -> None:
        if o in self.book[o.is_buy]:
            self.book[o.is_buy].remove(o)
            o.state = "canceled"
            o.terminal_volume = o.vol
        self.refresh()

    def greedy(self) -> Tuple[List[Tuple[MO, MO, int]], Optional[float]]:
        """reference matching round: walk both sides in priority order while the pair is executable."""
        B, S = self.sorted_side(True), self.sorted_side(False)
        i = j = 0
        rb = B[0].vol if B else 0
        rs = S[0].vol if S else 0
        pairs = []
        while i < len(B) and j < len(S):
            b, a = B[i], S[j]
            if b.price is not None and a.price is not None and b.price < a.price:
                break
            v = min(rb, rs)
            pairs.append((b, a, v))
            rb -= v
            rs -= v
            if rb == 0:
                i += 1
                rb = B[i].vol if i < len(B) else 0
            if rs == 0:
                j += 1
                rs = S[j].vol if j < len(S) else 0
        return pairs, self.price_of_pair(pairs[-1][0], pairs[-1][1]) if pairs else None

    @staticmethod
    def price_of_pair(b: MO, a: MO) -> Optional[float]:
        """the limit price of the earlier-accepted order of the pair (the limit order's if the other is a market order)."""
        if b.price is None and a.price is None:
            return None
        if b.price is None:
            return a.price
        if a.price is None:
            return b.price
        return b.price if (b.t, b.oid) < (a.t, a.oid) else a.price

    def apply_fill(self, b: MO, a: MO, v: int, price: float) -> None:
        for o in (b, a):
            o.vol -= v
            o.filled += v
            o.last_fill_time = self.t
            if o.vol == 0:
                self.book[o.is_buy].remove(o)
                o.state = "filled"
        self.last[self.t] = price
        self.vol[self.t] += v
        self.tot[self.t] += v * price
        self.refresh()

    def vwap(self) -> float:
        V = sum(self.vol)
        return float("nan") if V == 0 else sum(self.tot) / V


# ---------------------------------------------------------------------------------------------------------------
# json_extends reference (C18)


def ref_json_extends(whole: Dict[str, Any], name: str, target: Dict[str, Any], excludes: List[str]) -> Dict[str, Any]:
    res = {k: v for k, v in target.items() if k != "extends"}
    seen = [name]
    cur = target
    while "extends" in cur:
        p = cur["extends"]
        if p not in whole:
            raise ValueError("missing parent")
        if p in seen:
            raise ValueError("loop")
        seen.append(p)
        cur = whole[p]
        for k, v in cur.items():
            if k == "extends" or k in excludes:
                continue
            res.setdefault(k, v)
    return res
