"""Common machinery: seeds, sharding over processes, the Hypothesis driver, evidence and replay files.

Every check is a function ``check_case(case) -> CaseInfo`` over a JSON-serialisable ``case`` produced by a
Hypothesis strategy.  ``check_case`` raises :class:`Violation` when the property under check fails on the case,
:class:`PamsCrash` is raised by the harness when pams itself raises on an admissible input, and any other exception
is an error of the harness (exit 2, never a VIOLATION).
"""
import hashlib
import json
import math
import multiprocessing
import os
import sys
import time
import traceback
from typing import Any, Callable, Dict, List, Optional

VERIF_DIR = os.path.dirname(os.path.dirname(os.path.abspath(__file__)))
REPO_DIR = os.environ.get("PAMS_REPO", "/repo")
N_PROC = int(os.environ.get("VERIF_PROCS", "16"))


def setup_paths() -> None:
    """import pams from the current working tree of /repo; third-party deps from /verif/.deps if present."""
    deps = os.path.join(VERIF_DIR, ".deps")
    try:
        import hypothesis  # noqa: F401
    except ImportError:
        if os.path.isdir(deps):
            sys.path.insert(0, deps)
    if os.path.isdir(deps) and deps not in sys.path:
        sys.path.append(deps)
    if REPO_DIR not in sys.path:
        sys.path.insert(0, REPO_DIR)
    os.environ.setdefault("PAMS_VERIF", "1")


setup_paths()


class Violation(Exception):
    """the property under check does not hold on this case."""

    def __init__(self, oracle: str, message: str, detail: Any = None):
        super().__init__(f"{oracle}: {message}")
        self.oracle = oracle
        self.message = message
        self.detail = detail

    @property
    def signature(self) -> str:
        return self.oracle


class PamsCrash(Exception):
    """pams raised on an input the generator guarantees admissible."""

    def __init__(self, exc: BaseException, where: str = ""):
        self.exc_type = type(exc).__name__
        self.exc_msg = str(exc)[:300]
        tb = traceback.extract_tb(exc.__traceback__)
        self.frames = [(f.filename, f.lineno, f.name) for f in tb]
        self.pams_frames = [f for f in self.frames if _is_pams_file(f[0])]
        self.innermost_is_pams = bool(self.frames) and _is_pams_file(self.frames[-1][0])
        self.where = where
        self.tb_text = "".join(traceback.format_exception(type(exc), exc, exc.__traceback__))[-3000:]
        super().__init__(f"pams raised {self.exc_type}: {self.exc_msg}")

    def innermost_pams_file(self) -> Optional[str]:
        if not self.pams_frames:
            return None
        return os.path.relpath(self.pams_frames[-1][0], REPO_DIR)


def _is_pams_file(filename: str) -> bool:
    return os.path.abspath(filename).startswith(os.path.join(os.path.abspath(REPO_DIR), "pams") + os.sep)


def _is_harness_file(filename: str) -> bool:
    return os.path.abspath(filename).startswith(os.path.abspath(VERIF_DIR) + os.sep)


def classify_exception(exc: BaseException) -> Optional[PamsCrash]:
    """an exception escaping a call into pams is a pams crash iff, walking from the innermost frame outwards and skipping
    library frames (numpy, scipy, the standard library), the first frame met is pams code.  If it is one of the harness'
    own files (its agent / event / logger classes, its models) the exception is a harness error instead."""
    crash = PamsCrash(exc)
    for filename, _, _ in reversed(crash.frames):
        if _is_pams_file(filename):
            return crash
        if _is_harness_file(filename):
            return None
    return None


class CaseTimeout(BaseException):
    """one case ran longer than the watchdog allows (pams is looping, or the harness is)."""


class CaseInfo:
    """what a check reports about one executed case."""

    __slots__ = ("nontrivial", "classes", "sample", "steps", "skipped")

    def __init__(self, nontrivial: bool = False, classes=(), sample: Any = None, steps: int = 0, skipped: bool = False):
        self.nontrivial = nontrivial
        self.classes = tuple(classes)
        self.sample = sample
        self.steps = steps
        self.skipped = skipped


def case_hash(case: Any) -> int:
    data = json.dumps(case, sort_keys=True, default=repr).encode()
    return int.from_bytes(hashlib.sha1(data).digest()[:8], "big")


def derive_seed(*parts: Any) -> int:
    data = "/".join(str(p) for p in parts).encode()
    return int.from_bytes(hashlib.sha256(data).digest()[:8], "big") % (2**63)


def get_seed() -> int:
    try:
        return int(os.environ.get("VERIF_SEED", "1"))
    except ValueError:
        return derive_seed(os.environ.get("VERIF_SEED"))


def prop_anchor_files(prop_id: str) -> List[str]:
    with open(os.path.join(VERIF_DIR, "properties.jsonl")) as f:
        for line in f:
            p = json.loads(line)
            if p["id"] == prop_id:
                return list(p["anchors"]["files"])
    raise KeyError(prop_id)


# ---------------------------------------------------------------------------------------------------------------
# known findings


def load_known_findings(prop_id: str) -> List[Dict[str, Any]]:
    path = os.path.join(VERIF_DIR, "KNOWN_FINDINGS.json")
    if not os.path.exists(path):
        return []
    with open(path) as f:
        data = json.load(f)
    return [e for e in data.get("findings", []) if e.get("property") == prop_id and e.get("status") == "known"]


def match_known(known: List[Dict[str, Any]], signature: str) -> Optional[Dict[str, Any]]:
    for e in known:
        if e.get("signature") == signature:
            return e
    return None


# ---------------------------------------------------------------------------------------------------------------
# shard execution


class ShardResult(dict):
    pass


def _new_result() -> Dict[str, Any]:
    return {
        "evaluations": 0,
        "steps": 0,
        "skipped": 0,
        "nontrivial_hashes": set(),
        "classes": {},
        "samples": [],
        "violation": None,
        "harness_error": None,
        "crashes_elsewhere": {},
        "known_hits": {},
        "extra": {},
    }


class Recorder:
    """wraps a property's ``check_case`` with counting, crash attribution and known-finding suppression."""

    def __init__(self, prop_id: str, check_case: Callable[[Any], CaseInfo], max_samples: int = 3):
        self.prop_id = prop_id
        self.check_case = check_case
        self.res = _new_result()
        self.max_samples = max_samples
        self.anchors = set(prop_anchor_files(prop_id))
        self.known = load_known_findings(prop_id)
        self.last_failure: Optional[Dict[str, Any]] = None
        self.first_failure_time: Optional[float] = None
        self.shrink_budget_s = 60.0
        self.counting = True

    def _record_failure(self, case: Any, oracle: str, message: str, detail: Any) -> None:
        self.last_failure = {"case": case, "oracle": oracle, "message": message, "detail": detail}
        if self.first_failure_time is None:
            self.first_failure_time = time.time()

    def shrink_budget_exceeded(self) -> bool:
        return self.first_failure_time is not None and time.time() - self.first_failure_time > self.shrink_budget_s

    watchdog_s = 600
    timeout_violation: Optional[str] = None  # oracle name to report when the watchdog fires (properties about termination)

    def _run_with_watchdog(self, case: Any) -> CaseInfo:
        """a case that does not come back would hang the whole check: bound it with SIGALRM (worker processes run their
        cases in the main thread).  Ordinarily a timeout is a harness error (exit 2, never a violation); a part whose
        property is termination itself names the oracle to report instead."""
        import signal

        def on_alarm(signum, frame):
            raise CaseTimeout()

        old = signal.signal(signal.SIGALRM, on_alarm)
        signal.alarm(int(self.watchdog_s))
        try:
            return self.check_case(case)
        except CaseTimeout:
            if self.timeout_violation:
                raise Violation(self.timeout_violation, f"the call did not return within {self.watchdog_s} s (a handful of dictionary operations is expected)")
            raise RuntimeError(f"case did not finish within {self.watchdog_s} s")
        finally:
            signal.alarm(0)
            signal.signal(signal.SIGALRM, old)

    def __call__(self, case: Any) -> None:
        """run one case; raises Violation (only) if the property fails on it."""
        if self.shrink_budget_exceeded():
            return  # let the shrinker terminate; the best failing case so far is kept in last_failure
        res = self.res
        try:
            info = self._run_with_watchdog(case)
        except Violation as v:
            k = match_known(self.known, v.signature)
            if k is not None:
                res["known_hits"][v.signature] = res["known_hits"].get(v.signature, 0) + 1
                return
            self._record_failure(case, v.oracle, v.message, v.detail)
            raise
        except PamsCrash as c:
            f = c.innermost_pams_file()
            if f in self.anchors:
                sig = f"crash:{f}:{c.exc_type}"
                k = match_known(self.known, sig)
                if k is not None:
                    res["known_hits"][sig] = res["known_hits"].get(sig, 0) + 1
                    return
                v = Violation(sig, f"pams raised {c.exc_type} ({c.exc_msg}) on an admissible input", c.tb_text)
                self._record_failure(case, v.oracle, v.message, v.detail)
                raise v
            key = f"{f}:{c.exc_type}"
            res["crashes_elsewhere"][key] = res["crashes_elsewhere"].get(key, 0) + 1
            if self.counting:
                res["evaluations"] += 1
                res["skipped"] += 1
            return
        if self.counting:
            res["evaluations"] += 1
            res["steps"] += info.steps
            if info.skipped:
                res["skipped"] += 1
            for c in info.classes:
                res["classes"][c] = res["classes"].get(c, 0) + 1
            if info.nontrivial:
                res["nontrivial_hashes"].add(case_hash(case))
                if len(res["samples"]) < self.max_samples:
                    res["samples"].append(info.sample if info.sample is not None else case)


def run_hypothesis(recorder: Recorder, strategy, max_examples: int, seed: int, shrink: bool = True) -> None:
    """drive ``recorder`` with Hypothesis; on failure the (shrunk) case ends up in recorder.last_failure."""
    import hypothesis
    from hypothesis import HealthCheck, Phase, given, settings

    phases = [Phase.generate] + ([Phase.shrink] if shrink else [])

    @hypothesis.seed(seed)
    @settings(
        max_examples=max_examples,
        database=None,
        deadline=None,
        derandomize=False,
        report_multiple_bugs=False,
        suppress_health_check=list(HealthCheck),
        phases=phases,
        print_blob=False,
        verbosity=hypothesis.Verbosity.quiet,
    )
    @given(strategy)
    def test(case):
        recorder(case)

    try:
        test()
    except Violation:
        pass
    except BaseException as e:  # Flaky / FlakyFailure etc. after the shrink budget, or a harness error
        if recorder.last_failure is None:
            raise
        name = type(e).__name__
        if "Flaky" not in name and "Unsatisfiable" not in name and not isinstance(e, Violation):
            # an exception of the harness itself while shrinking: keep the recorded failure, note the error
            recorder.res["extra"]["shrink_error"] = f"{name}: {str(e)[:200]}"


def _shard_entry(args):
    mod_name, part_name, shard, n_shards, tier, seed, budget = args
    import importlib
    import warnings

    warnings.simplefilter("ignore")
    try:
        mod = importlib.import_module(mod_name)
        part = mod.PARTS[part_name]
        if "shard" in part:
            res = part["shard"](shard=shard, n_shards=n_shards, tier=tier, seed=seed, budget=budget)
        else:
            res = standard_shard(mod.ID, part["check"], part["strategy"], shard, n_shards, tier, seed, budget,
                                 part_name=part_name, watchdog=part.get("watchdog"))
        res["nontrivial_hashes"] = list(res["nontrivial_hashes"])
        if res.get("violation") is not None:
            res["violation"].setdefault("part", part_name)
        return res
    except BaseException as e:
        r = _new_result()
        r["nontrivial_hashes"] = []
        r["harness_error"] = "".join(traceback.format_exception(type(e), e, e.__traceback__))[-4000:]
        return r


def standard_shard(prop_id: str, check_case, strategy_fn, shard: int, n_shards: int, tier: str, seed: int, budget: int,
                   shrink_budget_s: Optional[float] = None, part_name: str = "", watchdog=None) -> Dict[str, Any]:
    """the usual shard body: run Hypothesis for ``budget`` examples with a per-shard seed."""
    rec = Recorder(prop_id, check_case)
    rec.shrink_budget_s = shrink_budget_s if shrink_budget_s is not None else (40.0 if tier == "quick" else 150.0)
    if watchdog:
        rec.watchdog_s, rec.timeout_violation = watchdog
    strategy = strategy_fn(tier)
    run_hypothesis(rec, strategy, max_examples=budget, seed=derive_seed(prop_id, part_name, seed, shard))
    res = rec.res
    if rec.last_failure is not None:
        res["violation"] = rec.last_failure
    return res


def run_sharded(mod_name: str, part_name: str, tier: str, seed: int, total_budget: int, n_shards: Optional[int] = None):
    n_shards = n_shards or N_PROC
    per = max(1, math.ceil(total_budget / n_shards))
    jobs = [(mod_name, part_name, s, n_shards, tier, seed, per) for s in range(n_shards)]
    ctx = multiprocessing.get_context("fork")
    with ctx.Pool(min(n_shards, N_PROC)) as pool:
        results = pool.map(_shard_entry, jobs, chunksize=1)
    return results


def merge_results(results: List[Dict[str, Any]]) -> Dict[str, Any]:
    out = _new_result()
    out["nontrivial_hashes"] = set()
    violations = []
    for r in results:
        out["evaluations"] += r["evaluations"]
        out["steps"] += r["steps"]
        out["skipped"] += r["skipped"]
        out["nontrivial_hashes"].update(r["nontrivial_hashes"])
        for k, v in r["classes"].items():
            out["classes"][k] = out["classes"].get(k, 0) + v
        for k, v in r["crashes_elsewhere"].items():
            out["crashes_elsewhere"][k] = out["crashes_elsewhere"].get(k, 0) + v
        for k, v in r["known_hits"].items():
            out["known_hits"][k] = out["known_hits"].get(k, 0) + v
        for k, v in r.get("extra", {}).items():
            if isinstance(v, (int, float)) and not isinstance(v, bool):
                out["extra"][k] = out["extra"].get(k, 0) + v
            elif isinstance(v, list):
                out["extra"].setdefault(k, []).extend(v)
            else:
                out["extra"][k] = v
        if len(out["samples"]) < 5:
            out["samples"].extend(r["samples"][: 5 - len(out["samples"])])
        if r["violation"] is not None:
            violations.append(r["violation"])
        if r["harness_error"] and not out["harness_error"]:
            out["harness_error"] = r["harness_error"]
    if violations:
        violations.sort(key=lambda v: len(json.dumps(v["case"], default=repr)))
        out["violation"] = violations[0]
        out["all_violations"] = violations
    return out


# ---------------------------------------------------------------------------------------------------------------
# evidence / replay files


def abbreviate(obj: Any, max_len: int = 1500) -> Any:
    s = json.dumps(obj, default=repr)
    if len(s) <= max_len:
        return json.loads(s)
    return {"abbreviated": s[:max_len] + "...", "full_length": len(s)}


def write_replay(prop_id: str, violation: Dict[str, Any]) -> str:
    d = os.path.join(VERIF_DIR, "replays" if os.path.abspath(REPO_DIR) == "/repo" else ".scratch_replays")
    os.makedirs(d, exist_ok=True)
    h = "%016x" % case_hash(violation["case"])
    path = os.path.join(d, f"{prop_id}-{h}.json")
    with open(path, "w") as f:
        json.dump(
            {
                "property": prop_id,
                "oracle": violation["oracle"],
                "message": violation["message"],
                "detail": violation.get("detail"),
                "case": violation["case"],
            },
            f,
            indent=1,
            default=repr,
        )
    return path


def write_evidence(prop_id: str, tier: str, seed: int, coverage: Dict[str, Any], wall_s: float, violations: int,
                   assumptions: List[str], level: str = "exploration") -> str:
    # evidence is only evidence when it comes from /repo itself; runs against scratch copies (mutants, seeded changes)
    # write to an ignored directory instead
    d = os.path.join(VERIF_DIR, "evidence" if os.path.abspath(REPO_DIR) == "/repo" else ".scratch_evidence")
    os.makedirs(d, exist_ok=True)
    path = os.path.join(d, f"{prop_id}.json")
    doc = {
        "property_id": prop_id,
        "tier": tier,
        "seed": int(seed),
        "level": level,
        "coverage": coverage,
        "assumptions": assumptions,
        "wall_s": round(wall_s, 3),
        "violations": int(violations),
    }
    tmp = path + ".tmp"
    with open(tmp, "w") as f:
        json.dump(doc, f, indent=1, default=repr)
    os.replace(tmp, path)
    return path
