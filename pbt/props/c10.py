"""C10 -- the logger sees every order, cancel, fill and expiry exactly once, in order."""
from ..common import CaseInfo
from ..oracles import Analysis, check_c10
from ..simharness import run_case
from ..strategies import sample_cases, sim_cases
from ._sim_common import frac, summarize

ID = "C10"
RULE = ("(every queued record and each session's end record must be HANDLED while their own session is still the current one; a cancel record carries the clock reading at acceptance, also when the Cancel object came pre-stamped) Configurations as for C05 run with a recording Logger subclass (write / bulk_write / write_and_direct_process and "
        "every process_*_log handler recorded; Logger.process itself is pams' own, so the handlers see what a user's logger would see: each record through the handler of its type, in the order it was handed over). Ground truth: the Order / Cancel objects the (scripted and traced built-in) agents returned, "
        "their final volumes, the markets' per-step executed volume and turnover, and a lifetime model for expiries. "
        "Checked: exactly one OrderLog / CancelLog per accepted order / cancel with equal fields, fill records whose per-order "
        "sums equal the volume each order lost and whose per-step sums equal the market statistics, one ExpirationLog per "
        "order that expired with volume left (fields equal), delivery order consistent with the events, begin/end records "
        "for simulation / sessions / steps, step records processed synchronously and all others by the next session "
        "boundary. Non-trivial = run with >=1 multi-fill round, >=1 cancel and >=1 expiry.")
ASSUMPTIONS = ["every agent in the generated configurations is a recording subclass, so every submitted object is known"]


def check_case(case):
    res = run_case(case)
    st = check_c10(Analysis(case, res))
    nt = st["multi_fill_rounds"] >= 1 and st["cancels"] >= 1 and st["expiries"] >= 1
    classes = [k for k in ("fills", "cancels", "expiries", "multi_fill_rounds") if st[k]]
    return CaseInfo(nontrivial=nt, classes=classes, steps=st["orders"], sample={"case": summarize(case), "stats": st})


def _strategy(tier):
    big = tier == "thorough"
    return sim_cases(builtin=True, steps=(1, 20) if big else (1, 8), agents_per_group=(1, 5), rules=True)


PARTS = {"sim": {"check": check_case, "strategy": _strategy, "budget": {"quick": 3000, "thorough": 40000}}}


def samples_check(case):
    """the repository's own sample configurations (scaled down, with recording agent classes)"""
    res = run_case(case)
    st = check_c10(Analysis(case, res))
    return CaseInfo(nontrivial=st["fills"] > 0, classes=["sample_" + case["sample"]] + (["fills"] if st["fills"] else []), steps=st.get("orders", st.get("observations", 0)),
                    sample={"sample": case["sample"], "seed": case["seed"], "sessions": [s["iterationSteps"] for s in case["config"]["simulation"]["sessions"]], "stats": st})


PARTS["samples"] = {"check": samples_check, "strategy": lambda tier: sample_cases(), "budget": {"quick": 64, "thorough": 1600}}


def vacuity(merged, tier):
    for cls, lim in (("fills", 0.16), ("cancels", 0.12), ("expiries", 0.12)):
        if frac(merged, "sim", cls) < lim:
            return f"class {cls} below {lim:.0%} of runs"
    return None
