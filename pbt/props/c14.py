"""C14 -- shocks hit only their target market, in their window, with their magnitude."""
import math

from hypothesis import strategies as st

from ..common import CaseInfo, Violation
from ..models import tick_violation
from ..oracles import Analysis
from ..simharness import IndexMarket, MarketStepBeginLog, OrderLog, run_case
from ..strategies import resolved_config, via_templates, market_names, program_strategy, spec_strategy
from ._sim_common import frac, summarize

ID = "C14"
RULE = ("(mistake part: one case in three has a second OrderMistakeShock on another market, mostly at the same step; each replaces exactly the first order on its own target) (fund) Hypothesis generates 2-4 markets (zero volatility in ~60% of cases, with drift), a FundamentalPriceShock placed "
        "in any session with triggerTime / shockTimeLength inside, across the end of, or beyond its session, rate of either "
        "sign or exactly 0, enabled or not; one run in six continues across the 100-step generation chunks. Oracle: with zero volatility the whole fundamental series of every market equals initial * "
        "exp(drift*t) * (1+rate)^(number of executed window steps <= t) for the target and without the product for all "
        "others (rel 1e-9); for any volatility, the fundamental of every market read in the first before-step hook of a step "
        "and read again at the step-begin record differs exactly by the factor (1+rate) for the target on window steps and "
        "not at all otherwise. (mistake) scripted agents submit to several markets at the trigger step of an "
        "OrderMistakeShock; every accepted order must equal what its agent returned (after tick rounding) except exactly the "
        "first order accepted on the target market at the trigger time, which must be a limit order of the configured volume "
        "and lifetime priced market price * (1+rate) (market price read in a probe hook just before), buy iff rate > 0; "
        "disabled shocks change nothing. Non-trivial: (fund) an enabled shock with >=1 executed window step; (mistake) >=2 "
        "markets receive orders at the trigger step.")
ASSUMPTIONS = ["the last slot of a series is written by the final clock advance; no step and hence no shock happens on it",
               "the probe event is registered before the shock (first in session 0), so its reads precede the shock in a step"]

OPTS = {"fundamentals": True}


@st.composite
def fund_cases(draw, tier):
    nm = draw(st.integers(2, 4))
    names = market_names(draw, nm)
    cfg = {"simulation": {"markets": list(names), "agents": ["A0"], "sessions": []}}
    zero = draw(st.integers(0, 4)) < 3
    for n in names:
        cfg[n] = {"class": "Market", "tickSize": 1.0, "marketPrice": draw(st.sampled_from([100.0, 250.0, 37.5])),
                  "fundamentalDrift": draw(st.sampled_from([0.0, 0.001, -0.002])),
                  "fundamentalVolatility": 0.0 if zero else draw(st.sampled_from([0.0, 0.01, 0.03]))}
        if draw(st.integers(0, 2)) == 0:
            cfg[n]["fundamentalPrice"] = draw(st.sampled_from([90.0, 400.0]))
    spec = spec_strategy(offs=[-2, -1, 1, 2], market_orders=False, own_cancel=False)
    cfg["A0"] = {"class": "VScriptedAgent", "numAgents": 2, "markets": list(names), "assetVolume": 10, "cashAmount": 1000,
                 "scripts": [draw(program_strategy(spec, max_actions=3))]}
    cfg["P"] = {"class": "VProbeEvent", "hooks": [["market", True, None, None, None]]}
    ns = draw(st.integers(1, 3))
    lens = [draw(st.integers(1, 8 if tier == "quick" else 40)) for _ in range(ns)]
    if draw(st.integers(0, 5)) == 0:
        # a run that goes on across the 100-step generation chunks after the shock
        lens[-1] = draw(st.sampled_from([97, 103, 130, 205]))
    shs = draw(st.integers(0, ns - 1))
    cfg["SH"] = {"class": "FundamentalPriceShock", "target": draw(st.sampled_from(names)),
                 "triggerTime": draw(st.integers(0, min(lens[shs], 60) + 2)), "priceChangeRate": draw(st.sampled_from([0.1, -0.1, 0.5, -0.3, 0.05, 0.0])),
                 "shockTimeLength": draw(st.integers(1, 5)), "enabled": draw(st.sampled_from([True, True, True, False]))}
    if draw(st.booleans()):
        del cfg["SH"]["shockTimeLength"]
    if draw(st.integers(0, 3)) == 0:
        cfg["SH"]["class"] = "VSubFundamentalPriceShock"  # a user subclass that inherits every handler
    via_templates(draw, cfg, "SH")
    shs2 = None
    if draw(st.integers(0, 2)) == 0:
        # a second, independent shock (any market, any session): the effects must simply compose
        shs2 = draw(st.integers(0, ns - 1))
        cfg["SH2"] = {"class": "FundamentalPriceShock", "target": draw(st.sampled_from(names)), "triggerTime": draw(st.integers(0, min(lens[shs2], 60) + 1)),
                      "priceChangeRate": draw(st.sampled_from([0.2, -0.15, 0.01])), "shockTimeLength": draw(st.integers(1, 3))}
    # the same shock entry listed under a second session as well: every listing is a shock of its own, counted from its own session
    relist = draw(st.sampled_from([s_ for s_ in range(ns) if s_ != shs])) if ns >= 2 and draw(st.integers(0, 3)) == 0 else None
    for s in range(ns):
        ses = {"sessionName": s, "iterationSteps": lens[s], "withOrderPlacement": draw(st.booleans()), "withOrderExecution": draw(st.booleans()),
               "withPrint": False, "maxNormalOrders": 2,
               "events": (["P"] if s == 0 else []) + (["SH"] if s == shs or s == relist else []) + (["SH2"] if s == shs2 else [])}
        cfg["simulation"]["sessions"].append(ses)
    return {"config": cfg, "seed": draw(st.integers(0, 2**31 - 1))}


def fund_check(case):
    res = run_case(case, OPTS)
    A = Analysis(case, res)
    sim, cfg = A.sim, resolved_config(case["config"])
    shocks = []  # (target name, window steps that are actually executed, rate), in registration order
    for key in ("SH", "SH2"):
        if key not in cfg:
            continue
        sh_ = cfg[key]
        for ss in [i for i, s in enumerate(A.sess_cfg) if key in s.get("events", [])]:
            start = sum(s["iterationSteps"] for s in A.sess_cfg[:ss])
            length_ = sh_.get("shockTimeLength", 1)
            win = [w for w in range(start + sh_["triggerTime"], start + sh_["triggerTime"] + length_) if w < A.total_steps]
            if not sh_.get("enabled", True):
                win = []
            shocks.append((sh_["target"], win, sh_["priceChangeRate"], ss))
    sh = cfg["SH"]
    shs = shocks[0][3]
    length = sh.get("shockTimeLength", 1)
    window = shocks[0][1]
    rate = sh["priceChangeRate"]
    # closed form at zero volatility
    for m in sim.markets:
        c = cfg[m.name]
        if c["fundamentalVolatility"] != 0.0:
            continue
        init = c.get("fundamentalPrice", c["marketPrice"])
        series = m.get_fundamental_prices()
        for t, f in enumerate(series):
            exp = init * math.exp(c["fundamentalDrift"] * t)
            for tgt, win, r_, _ in shocks:
                if tgt == m.name:
                    exp *= (1 + r_) ** sum(1 for w in win if w <= t)
            if not math.isclose(f, exp, rel_tol=1e-9):
                raise Violation("C14.fundamental_closed_form", f"market {m.name} t={t}: fundamental {f!r}, expected {exp!r} "
                                                               f"(shocks (target, executed window, rate): {[(a, b, c_) for a, b, c_, _ in shocks]})")
    # within-step reads: first before-step hook of the step vs the step-begin record of each market
    names_ = [m.name for m in sim.markets]
    first_hook = {}
    for i, (k, kw) in enumerate(A.items):
        if k == "hook" and kw["what"] == "market_before" and kw["times"][0] not in first_hook:
            first_hook[kw["times"][0]] = kw["fund"]
        if k == "log.direct" and kw["log_type"] == "MarketStepBeginLog":
            t = kw["times"][0]
            before = first_hook.get(t)
            if before is None:
                continue
            mi = sim.markets.index(sim.id2market[kw["market_id"]])
            for j, (b, a) in enumerate(zip(before, kw["fund"])):
                # by the time market mi's step-begin record is written, the before-step hooks of markets 0..mi have run
                factor = 1.0
                for tgt, win, r_, _ in shocks:
                    if names_.index(tgt) == j and t in win and mi >= j:
                        factor *= (1 + r_)
                if not math.isclose(a, b * factor, rel_tol=1e-12):
                    raise Violation("C14.fundamental_shock_within_step", f"step {t}: fundamental of market {j} went {b!r} -> {a!r} across the before-step hooks "
                                                                         f"(expected factor {factor}; shocks {[(a_, b_, c_) for a_, b_, c_, _ in shocks]})")
    nt = bool(window)
    classes = (["window"] if window else []) + (["disabled"] if not sh["enabled"] else []) + \
              (["window_truncated"] if sh["enabled"] and len(window) < length else []) + (["crosses_chunk_after_shock"] if window and A.total_steps > 100 else []) + (["two_shocks"] if len(shocks) >= 2 else []) + (["relisted"] if sum(1 for s_ in A.sess_cfg if "SH" in s_.get("events", [])) >= 2 else [])
    return CaseInfo(nontrivial=nt, classes=classes, steps=A.total_steps,
                    sample={"shock": sh, "session_lengths": [s["iterationSteps"] for s in A.sess_cfg], "shock_session": shs, "window": window, "seed": case["seed"]})


@st.composite
def mistake_cases(draw, tier):
    nm = draw(st.integers(2, 3))
    names = market_names(draw, nm)
    cfg = {"simulation": {"markets": list(names), "agents": ["A0", "A1"], "sessions": []}}
    for n in names:
        cfg[n] = {"class": "Market", "tickSize": draw(st.sampled_from([1.0, 0.5, 0.1])), "marketPrice": draw(st.sampled_from([100.0, 250.0]))}
    spec = spec_strategy(offs=[-3, -1, 0, 1, 3], ttls=(None, 2, 5))
    for g in ("A0", "A1"):
        cfg[g] = {"class": "VScriptedAgent", "numAgents": draw(st.integers(1, 3)), "markets": list(names), "assetVolume": 10, "cashAmount": 1000,
                  "scripts": draw(st.lists(program_strategy(spec, max_actions=4, decline_weight=0), min_size=1, max_size=2))}
    if draw(st.booleans()):
        cfg["H0"] = {"class": "VScriptedHFT", "numAgents": 1, "markets": list(names), "assetVolume": 10, "cashAmount": 1000,
                     "scripts": [draw(program_strategy(spec, max_actions=3))]}
        cfg["simulation"]["agents"].append("H0")
    cfg["P"] = {"class": "VProbeEvent", "hooks": [["order", True, None, None, None]]}
    ns = draw(st.integers(1, 3))
    lens = [draw(st.integers(1, 6)) for _ in range(ns)]
    shs = draw(st.integers(0, ns - 1))
    cfg["OM"] = {"class": "OrderMistakeShock", "target": draw(st.sampled_from(names)), "triggerTime": draw(st.sampled_from([0, 0, draw(st.integers(0, lens[shs]))])),
                 "priceChangeRate": draw(st.sampled_from([-0.05, 0.05, -0.2, 0.1, 0.0])), "orderVolume": draw(st.integers(1, 500)),
                 "orderTimeLength": draw(st.integers(1, 10)), "enabled": draw(st.sampled_from([True, True, True, False]))}
    if draw(st.integers(0, 3)) == 0:
        cfg["OM"]["class"] = "VSubOrderMistakeShock"  # a user subclass that inherits every handler
    om_target, om_trigger = cfg["OM"]["target"], cfg["OM"]["triggerTime"]
    via_templates(draw, cfg, "OM")
    second = draw(st.integers(0, 2)) == 0
    if second:
        # a second shock on ANOTHER market, in two cases of three at the very same step
        cfg["OM2"] = {"class": "OrderMistakeShock", "target": draw(st.sampled_from([n for n in names if n != om_target])),
                      "triggerTime": om_trigger if draw(st.integers(0, 2)) else draw(st.integers(0, lens[shs])),
                      "priceChangeRate": draw(st.sampled_from([-0.1, 0.05, 0.2])), "orderVolume": draw(st.integers(1, 500)),
                      "orderTimeLength": draw(st.integers(1, 10))}
    for s in range(ns):
        cfg["simulation"]["sessions"].append({"sessionName": s, "iterationSteps": lens[s], "withOrderPlacement": True,
                                              "withOrderExecution": draw(st.booleans()), "withPrint": False, "maxNormalOrders": draw(st.integers(1, 5)),
                                              "maxHighFrequencyOrders": 1,
                                              "events": (["P"] if s == 0 else []) + (["OM"] if s == shs else []) + (["OM2"] if second and s == shs else [])})
    return {"config": cfg, "seed": draw(st.integers(0, 2**31 - 1))}


def mistake_check(case):
    res = run_case(case, OPTS)
    A = Analysis(case, res)
    sim, cfg = A.sim, resolved_config(case["config"])
    om_main = cfg["OM"]
    shs = [i for i, s in enumerate(A.sess_cfg) if "OM" in s.get("events", [])][0]
    probe = {}
    for k, kw in A.items:
        if k == "hook" and kw["what"] == "order_before":
            probe[id(kw["order"])] = kw
    logs = {(l.market_id, l.order_id): l for _, l in A.order_logs}
    # per shock: the first order accepted on its target market at its trigger time
    firsts = {}
    n_expected = 0
    for name in ("OM", "OM2"):
        if name not in cfg or not cfg[name].get("enabled", True):
            continue
        trig = sum(s["iterationSteps"] for s in A.sess_cfg[:shs]) + cfg[name]["triggerTime"]
        tgt = sim.name2market[cfg[name]["target"]]
        for i, l in A.order_logs:
            if l.time == trig and l.market_id == tgt.market_id:
                firsts[(l.market_id, l.order_id)] = cfg[name]
                n_expected += 1
                break
    trigger = sum(s["iterationSteps"] for s in A.sess_cfg[:shs]) + om_main["triggerTime"]
    target = sim.name2market[om_main["target"]]
    om = om_main
    replaced = 0
    markets_at_trigger = set()
    for o, snap, _ in A.returned_orders:
        l = logs.get((o.market_id, o.order_id))
        if l is None:
            raise Violation("C14.order_lost", "an order returned by an agent was never accepted")
        m = sim.id2market[o.market_id]
        if l.time == trigger:
            markets_at_trigger.add(l.market_id)
        if (o.market_id, o.order_id) in firsts:
            om = firsts[(o.market_id, o.order_id)]
            if id(o) not in probe:
                continue  # the probe's before-order hook did not fire for this order (event dispatch is broken: C13's subject)
            mp = probe[id(o)]["mp"]
            want_price = mp * (1 + om["priceChangeRate"])
            msg = tick_violation(want_price, m.tick_size, l.price, om["priceChangeRate"] > 0.0) if l.price is not None else "no price"
            if (l.kind.name != "LIMIT_ORDER" or l.volume != om["orderVolume"] or l.ttl != om["orderTimeLength"]
                    or l.is_buy != (om["priceChangeRate"] > 0.0) or msg or l.agent_id != snap["agent_id"]):
                raise Violation("C14.mistake_order_shape", f"the replaced order was accepted as kind={l.kind.name} buy={l.is_buy} volume={l.volume} ttl={l.ttl} "
                                                           f"price={l.price!r}; configured volume {om['orderVolume']} ttl {om['orderTimeLength']} rate {om['priceChangeRate']} "
                                                           f"market price {mp!r} ({msg})")
            replaced += 1
            continue
        # every other order is accepted as returned
        want = (snap["is_buy"], snap["kind"], snap["volume"], snap["ttl"])
        got = (l.is_buy, l.kind.name, l.volume, l.ttl)
        msg = None
        if snap["price"] is None:
            if l.price is not None:
                msg = "market order got a price"
        else:
            msg = tick_violation(snap["price"], m.tick_size, l.price, snap["is_buy"]) if l.price is not None else "limit order lost its price"
        if want != got or msg:
            raise Violation("C14.mistake_replaces_only_the_first_target_order",
                            f"order {o.order_id} on market {m.name} at time {l.time} was returned as {snap} but accepted as buy={l.is_buy} kind={l.kind.name} "
                            f"volume={l.volume} ttl={l.ttl} price={l.price!r} (target {om['target']}, trigger {trigger}, enabled {om['enabled']})")
    om = om_main
    if replaced != n_expected and all(id(o) in probe for o, _, _ in A.returned_orders):
        raise Violation("C14.mistake_not_applied", f"{n_expected} shock(s) met a first order on their target market at their trigger time, {replaced} order(s) were replaced")
    nt = len(markets_at_trigger) >= 2
    classes = (["replaced"] if replaced else []) + (["multi_market_trigger"] if nt else []) + ([] if om["enabled"] else ["disabled"]) + (["two_shocks"] if "OM2" in cfg else []) + \
              (["two_replaced"] if replaced >= 2 else [])
    first_at_trigger = next((l.market_id for i, l in A.order_logs if l.time == trigger), None)
    if first_at_trigger is not None and first_at_trigger != target.market_id and om["enabled"]:
        classes.append("first_order_elsewhere")
    return CaseInfo(nontrivial=nt, classes=classes, steps=len(A.order_logs),
                    sample={"shock": om, "trigger": trigger, "markets_at_trigger": sorted(markets_at_trigger), "replaced": replaced, "seed": case["seed"]})


PARTS = {
    "fund": {"check": fund_check, "strategy": fund_cases, "budget": {"quick": 2400, "thorough": 30000}},
    "mistake": {"check": mistake_check, "strategy": mistake_cases, "budget": {"quick": 2400, "thorough": 30000}},
}


def vacuity(merged, tier):
    for part, cls, lim in (("fund", "window", 0.16), ("fund", "window_truncated", 0.02), ("fund", "disabled", 0.02), ("mistake", "replaced", 0.12),
                           ("mistake", "first_order_elsewhere", 0.04), ("mistake", "multi_market_trigger", 0.12)):
        if frac(merged, part, cls) < lim:
            return f"{part}: class {cls} below {lim:.0%} of runs"
    return None
