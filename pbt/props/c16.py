"""C16 -- trading halt rule: no fills on a stopped market; halt and resume on schedule."""
from hypothesis import strategies as st

from ..common import CaseInfo, Violation
from ..oracles import Analysis, check_round_follows
from ..simharness import CancelLog, ExecutionLog, MarketStepBeginLog, OrderLog, run_case
from ..strategies import resolved_config, via_templates, market_names, crossing_pair, program_strategy, spec_strategy
from ._sim_common import frac, summarize

ID = "C16"
RULE = ("(fills are taken from the logger, judged with the probe's reading after the rule's own hook or, if no hook saw the fill, from the fill price; one run in three has a self-crossing agent, one in three a high-frequency agent; the obsolete referenceMarket key may be present) (one case in three registers an unrelated probe event with TIMED execution / step hooks before the rules; once a market runs again and its session executes, every accepted order or cancel on it must be followed by a round: oracles.check_round_follows) Hypothesis generates 2 markets, a TradingHaltRule on one of them or (one case in four) on both (rate 0.005-0.1, haltingTimeLength 0-6), in a third of the cases a second independent rule (own rate, length, target) attached to "
        "any session, 1-3 sessions with generated execution flags and lengths (so that halts end inside their session, at its "
        "end, or are cut by it), and scripted agents whose limit prices walk the price away from and back to the reference. A "
        "probe event registered after the rule records market price, p0 = get_market_price(0) and is_running after every fill. "
        "A per-round timer model decides: a round on the target whose price deviates from p0 by >= |p0*rate*(k+1)| (k halts so "
        "far) stops it at once (no fill on it until it resumes; fills of the triggering round itself are allowed), it is not "
        "running at the begin of the next L steps of the same session, and is running again at step t_h+L+1 or at the first "
        "step of the next session iff that session executes; the non-target market's is_running always equals its session's "
        "flag; orders submitted during a halt are still accepted. Non-trivial = run containing >=1 halt; distinct by (config, "
        "seed).")
ASSUMPTIONS = ["a rule has one target (three cases in four) or both markets; with several targets only the market whose fill crossed the line stops, and the halt counter is shared by the rule's targets (observed behaviour; the property speaks of 'that market')",
               "fills on OTHER markets while the target is halted are neither required nor forbidden by the property and are not judged"]


@st.composite
def cases(draw, tier):
    names = market_names(draw, 2)
    L = draw(st.integers(0, 6))
    rate = draw(st.sampled_from([0.005, 0.01, 0.02, 0.05, 0.1]))
    target = draw(st.sampled_from(names))
    cfg = {"simulation": {"markets": list(names), "agents": ["A0", "B0"], "sessions": []}}
    for n in names:
        cfg[n] = {"class": "Market", "tickSize": draw(st.sampled_from([1.0, 0.5])), "marketPrice": draw(st.sampled_from([100.0, 200.0]))}
    spec = spec_strategy(offs=[-8, -6, -4, -2, -1, 1, 2, 4, 6, 8], market_orders=False, cancels=True, own_cancel=False, n_mi=2, offgrid=False,
                         volumes=(1, 3), ttls=(None, 2, 5))
    cfg["A0"] = {"class": "VScriptedAgent", "numAgents": draw(st.integers(2, 5)), "markets": list(names), "assetVolume": 10, "cashAmount": 1000,
                 "scripts": draw(st.lists(program_strategy(spec, max_actions=6, decline_weight=0), min_size=1, max_size=4))}
    cfg["B0"] = crossing_pair(names, ttl=2)
    if draw(st.integers(0, 2)) == 0:
        # a high-frequency agent (default submit rate 1.0, default cap 1): it goes on placing and cancelling during a halt
        cfg["H0"] = {"class": "VScriptedHFT", "numAgents": 1, "markets": list(names), "assetVolume": 10, "cashAmount": 1000,
                     "scripts": [draw(program_strategy(spec, max_actions=4, decline_weight=0))]}
        cfg["simulation"]["agents"].append("H0")
    if draw(st.integers(0, 2)) == 0:
        # one agent that crosses its own resting order away from the reference price: a self-trade is a fill like any other
        k = draw(st.sampled_from([-8, -6, -4, 4, 6, 8]))
        mi = draw(st.integers(0, 1))
        cfg["S0"] = {"class": "VScriptedAgent", "numAgents": 1, "markets": list(names), "assetVolume": 10, "cashAmount": 1000,
                     "scripts": [[[["L", mi, k > 0, k, 1, 4]], [["L", mi, k < 0, k, 1, None]]]]}
        cfg["simulation"]["agents"].append("S0")
    both = draw(st.integers(0, 3)) == 0  # one rule over both markets: one halt slot and one halt counter shared by its targets
    cfg["HALT"] = {"class": "TradingHaltRule", "targetMarkets": list(names) if both else [target], "triggerChangeRate": rate, "haltingTimeLength": L}
    if draw(st.integers(0, 3)) == 0:
        cfg["HALT"]["referenceMarket"] = draw(st.sampled_from(names))  # obsolete key, accepted with a warning: it changes nothing
    if draw(st.integers(0, 5)) == 0:
        cfg["HALT"]["enabled"] = False
    if draw(st.integers(0, 3)) == 0:
        cfg["HALT"]["class"] = "VSubTradingHaltRule"  # a user subclass that inherits every handler
    via_templates(draw, cfg, "HALT")
    second = draw(st.integers(0, 2)) == 0
    if second:
        # a second, independent rule (a tiered breaker on the same market, or a rule on the other market)
        cfg["HALT2"] = {"class": "TradingHaltRule", "targetMarkets": [draw(st.sampled_from(names))],
                        "triggerChangeRate": draw(st.sampled_from([0.01, 0.03, 0.08])), "haltingTimeLength": draw(st.integers(0, 8))}
    cfg["P"] = {"class": "VProbeEvent", "hooks": [["execution", False, None, None, None]]}
    timed = draw(st.integers(0, 2)) == 0
    if timed:
        # an unrelated event with TIMED execution / step hooks, registered before the rules (whose own hooks are untimed)
        ts = sorted(draw(st.sets(st.integers(0, 14), min_size=1, max_size=5)))
        cfg["PT"] = {"class": "VProbeEvent", "hooks": [["execution", False, ts, None, None], ["market", True, ts, None, None]]}
    ns = draw(st.integers(1, 3))
    hs = draw(st.integers(0, ns - 1))
    hs2 = draw(st.integers(0, ns - 1))
    for s in range(ns):
        cfg["simulation"]["sessions"].append({"sessionName": s, "iterationSteps": draw(st.integers(2, 12 if tier == "quick" else 40)), "withOrderPlacement": True,
                                              "withOrderExecution": draw(st.sampled_from([True, True, True, False])), "withPrint": False,
                                              "maxNormalOrders": draw(st.integers(2, 6)),
                                              "events": (["PT"] if timed and s == 0 else []) + (["HALT"] if s == hs else []) + (["HALT2"] if second and s == hs2 else []) + (["P"] if s == ns - 1 else [])})
    return {"config": cfg, "seed": draw(st.integers(0, 2**31 - 1))}


def check_case(case):
    res = run_case(case, {"exec_state": True})
    A = Analysis(case, res)
    sim, cfg = A.sim, resolved_config(case["config"])
    halt = cfg["HALT"]
    # the rules in the order their hooks were registered (session by session, event by event)
    rules = []
    for sc in A.sess_cfg:
        for name in sc.get("events", []):
            if name in ("HALT", "HALT2"):
                rc = cfg[name]
                rules.append({"name": name, "targets": {sim.name2market[n].market_id for n in rc["targetMarkets"]}, "rate": rc["triggerChangeRate"],
                              "L": rc["haltingTimeLength"], "enabled": rc.get("enabled", True), "k": 0})
    target_ids = set().union(*[r["targets"] for r in rules if r["enabled"]]) if any(r["enabled"] for r in rules) else set()
    all_target_ids = set().union(*[r["targets"] for r in rules])
    pos = {m.market_id: sim.markets.index(m) for m in sim.markets}
    halted_until = {mid: None for mid in all_target_ids}   # per market: last step of the halt in force
    halt_round = {mid: False for mid in all_target_ids}
    cur_session = None
    n_halts = 0
    halted_steps = 0
    accepted_during_halt = 0
    cut_by_session = 0
    m0 = sim.markets[0]
    L = halt["haltingTimeLength"]
    probe_by_log = {id(kw["log"]): kw for kind, kw in A.items if kind == "hook" and kw["what"] == "execution_after"}
    unseen_fills = 0
    for kind, kw in A.items:
        if kind == "log.direct" and kw["log_type"] == "MarketStepBeginLog":
            mk = sim.id2market[kw["market_id"]]
            t = kw["times"][0]
            ses = kw["session_id"]
            if mk is m0 and ses != cur_session:
                cur_session = ses
                for mid in halted_until:
                    if halted_until[mid] is not None:
                        cut_by_session += 1
                    halted_until[mid] = None  # a halt ends with its session
            mid = mk.market_id
            if mid in halted_until:
                if halted_until[mid] is not None and t > halted_until[mid]:
                    halted_until[mid] = None
                exp_running = A.sess_cfg[ses]["withOrderExecution"] and halted_until[mid] is None
                if halted_until[mid] is not None:
                    halted_steps += 1
                if kw["running"][pos[mid]] != exp_running:
                    raise Violation("C16.halt_schedule", f"step {t} (session {ses}, executes={A.sess_cfg[ses]['withOrderExecution']}): target {mk.name} is_running="
                                                         f"{kw['running'][pos[mid]]}, expected {exp_running} (halt in force until step {halted_until[mid]}; rules "
                                                         f"{[(r['name'], r['rate'], r['L'], r['k']) for r in rules]})")
            elif kw["running"][pos[mid]] != A.sess_cfg[ses]["withOrderExecution"]:
                raise Violation("C16.non_target_untouched", f"step {t}: non-target market {mk.name} is_running={kw['running'][pos[mid]]} in a session with "
                                                            f"withOrderExecution={A.sess_cfg[ses]['withOrderExecution']}")
        if kind == "log.write" and isinstance(kw["log"], (OrderLog, CancelLog)):
            for mid in halt_round:
                halt_round[mid] = False
            if any(v is not None for v in halted_until.values()):
                accepted_during_halt += 1
        if kind == "log.write" and isinstance(kw["log"], ExecutionLog):
            # every fill the logger saw, judged with what the probe recorded right after the rule's own hook ran; a fill that
            # never reached the after-execution hooks is judged from its own price (the price of a running market after a fill)
            l = kw["log"]
            mid = l.market_id
            kw = probe_by_log.get(id(l)) or {"log": l, "mp": l.price, "p0": sim.id2market[mid].get_market_price(0), "running": None}
            if kw["running"] is None:
                if l.time == 0:
                    continue  # (the time-0 price still moves during step 0: no fallback judgement there)
                unseen_fills += 1
            if mid in halted_until:
                if halted_until[mid] is not None and not halt_round[mid]:
                    raise Violation("C16.no_fill_while_halted", f"fill at time {l.time} on the halted target market {mid} (halt in force until step {halted_until[mid]})")
                triggered = None
                if halted_until[mid] is None:
                    for r in rules:  # the first registered rule whose (moving) line is crossed stops the market
                        if r["enabled"] and mid in r["targets"] and abs(kw["p0"] - kw["mp"]) >= abs(kw["p0"] * r["rate"] * (r["k"] + 1)):
                            triggered = r
                            break
                if triggered is not None:
                    halted_until[mid] = l.time + triggered["L"]
                    triggered["k"] += 1
                    n_halts += 1
                    halt_round[mid] = True
                    if kw["running"]:  # (None when the fill never reached the hooks: the schedule check at the next step decides)
                        raise Violation("C16.halts_at_once", f"price {kw['mp']!r} deviates from p0 {kw['p0']!r} by at least rate*{triggered['k']} of rule "
                                                             f"{triggered['name']} but the market is still running after the fill")
                elif kw["running"] is False and halted_until[mid] is None:
                    raise Violation("C16.unexpected_halt", f"target {mid} stopped after a fill at {kw['mp']!r} (p0 {kw['p0']!r}; rules "
                                                           f"{[(r['name'], r['rate'], r['k']) for r in rules]})")
            else:
                # a fill on a market that is not a target: the property does not forbid it while a target is halted
                if kw["running"] is False:
                    raise Violation("C16.no_fill_on_stopped_market", f"fill at time {l.time} on market {mid}, which reports is_running=False")
    enabled = any(r["enabled"] for r in rules)
    targets = [m for m in sim.markets if m.market_id in all_target_ids]
    # independent of the model: no fill is ever recorded for a market that was not running at the preceding step-begin
    # observation unless it was (re)started in between -- covered by the schedule above; here the plain invariant on the
    # trace: a fill's market reports is_running in the probe hook of the first fill of each round
    returned = len(A.returned_orders)
    if len(A.order_logs) != returned:
        raise Violation("C16.orders_accepted_during_halt", f"{returned} orders submitted, {len(A.order_logs)} accepted")
    # "orders can still be placed and cancelled during the halt" holds for high-frequency agents too: at the default submit rate
    # (1.0) they are consulted after every batch of a normal agent, halt or no halt
    if "H0" in cfg:
        for s_ in A.steps:
            normal_batches = sum(1 for i, k, kw in s_["items"] if k == "consult" and not kw["hft"] and kw["n"] > 0)
            hft_consults = sum(1 for i, k, kw in s_["items"] if k == "consult" and kw["hft"])
            if normal_batches and hft_consults < normal_batches:
                raise Violation("C16.placement_continues_during_halt", f"step {s_['t']} (running at its begin: {s_['running']}): {normal_batches} batch(es) of normal agents "
                                                                       f"but the high-frequency agent was consulted {hft_consults} time(s)")
    # matching really resumes: once a market runs again (and the session executes), every accepted order or cancel on it is
    # followed by a round -- orders that crossed during the halt do not stay crossed
    judged = check_round_follows(A, "C16")
    classes = (["round_checks"] if judged else []) + (["two_targets"] if len(halt["targetMarkets"]) == 2 else []) + (["two_rules"] if len(rules) == 2 else []) + (["halt"] if n_halts else []) + (["two_halts"] if n_halts >= 2 else []) + (["accepted_during_halt"] if accepted_during_halt else []) + \
              (["cut_by_session"] if cut_by_session else []) + (["disabled"] if not enabled else [])
    return CaseInfo(nontrivial=n_halts >= 1, classes=classes, steps=A.total_steps,
                    sample={"rule": halt, "sessions": [(s["iterationSteps"], s["withOrderExecution"]) for s in A.sess_cfg], "halts": n_halts,
                            "halted_steps": halted_steps, "accepted_during_halt": accepted_during_halt, "seed": case["seed"]})


PARTS = {"sim": {"check": check_case, "strategy": cases, "budget": {"quick": 3000, "thorough": 40000}}}


def vacuity(merged, tier):
    for cls, lim in (("halt", 0.08), ("two_halts", 0.012), ("accepted_during_halt", 0.04), ("cut_by_session", 0.012)):
        if frac(merged, "sim", cls) < lim:
            return f"class {cls} below {lim:.0%} of runs"
    return None
