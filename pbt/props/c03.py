"""C03 -- a matching round clears every executable pair and never fails."""
from hypothesis import strategies as st

from ..common import CaseInfo, Violation
from ..market_machine import market_cases
from ..simharness import CancelLog, ExecutionLog, OrderLog, run_case
from ._market_common import frac, fuzz_part, make_check

ID = "C03"
RULE = ("(machine part also: clock jumps of 2-12 steps through Market._set_time; one history in three contains a book that crosses while the market is closed and is carried over 1-2 clock steps) Histories as for C01 with batch mode weighted 3:1 and 15-30% market orders, so that crossed books with market "
        "orders on one or both sides accumulate while matching is off. After every round: no exception, post-state "
        "uncrossed (on the independent model driven by the actual fills and on pams' getters), per-order fill totals equal "
        "the reference greedy walk. Non-trivial = history with a round on a book crossed by >=2 levels or holding market "
        "orders on both sides. (sim) the same engine as the runner drives it: C09's session lists and C16's halt-rule "
        "configurations (one or two rules, one or both markets as targets); an exception escaping a round is attributed to "
        "C03 through its innermost pams frame, and without an enabled halt rule the book of the accepted order's market must "
        "not be executable at the next observation point of an execution session; non-trivial there = run with >=2 fills. "
        "(odd_levels) short books of 2-20 one-to-three-lot limit orders within two ticks of a grid level l with (l*tick)/tick != l in "
        "floating point (ticks that are not powers of two), ties and one-tick crossings, batch or continuous; non-trivial = a round with fills.")
ASSUMPTIONS = ["the part 'nonpositive' uses limit prices <= 0, which pams accepts with a warning; all other parts use positive prices",
               "thorough tier adds a coverage-guided atheris campaign over byte-decoded histories (16 processes, half from an empty corpus); its saved decoded case, not the campaign, is the reproducible unit",
               "when both best orders are market orders (outside C03's premise) the engine's decision not to run a round is accepted"]


def _nt(f):
    return bool(f.get("round_crossed_two_levels") or f.get("round_market_both_sides"))


def _strategy(tier):
    return market_cases(max_ops=60 if tier == "quick" else 300, market_frac=4, batch_bias=True, match_weight=4, jumps=True)


def _deep_strategy(tier):
    # deep, mostly uncrossed books with many cancels from the middle, swept by drain probes
    return market_cases(max_ops=60 if tier == "quick" else 300, market_frac=1, deep=True, toggles=False)


PARTS = {"machine": {"check": make_check({"C03"}, _nt), "strategy": _strategy,
                     "budget": {"quick": 3000, "thorough": 60000}},
         "deep": {"check": make_check({"C03"}, _nt), "strategy": _deep_strategy, "budget": {"quick": 2000, "thorough": 40000}}}

def _nonpositive_strategy(tier):
    # books whose limit prices include zero and negative values (accepted by pams with a warning): rounds must still terminate
    # without raising and leave the book uncrossed
    return market_cases(max_ops=40 if tier == "quick" else 150, market_frac=3, nonpositive=True, batch_bias=True, match_weight=4)


PARTS["nonpositive"] = {"check": make_check({"C03"}, _nt), "strategy": _nonpositive_strategy, "budget": {"quick": 1500, "thorough": 40000}}
PARTS["fuzz"] = fuzz_part("C03", {"C03"}, _nt)


@st.composite
def _odd_level_cases(draw, tier):
    """books around a grid level l whose price does not give the level back in floating point ((l*tick)/tick != l): with a tick
    that is not a power of two this happens on a few levels in a hundred, and an engine that recomputes levels from accepted prices
    (instead of comparing the prices) misjudges exactly the ties and one-tick crossings there"""
    import math
    tick = draw(st.one_of(st.sampled_from([0.1, 0.3, 1.1, 0.01, 7.0, 2.5, 1e-5]), st.floats(min_value=1e-3, max_value=20.0, allow_nan=False)))
    L0 = draw(st.integers(min_value=8, max_value=5000))
    odd = [l for l in range(L0, L0 + 400) if (l * tick) / tick != l]
    lv = draw(st.sampled_from(odd)) if odd else L0
    n = draw(st.integers(min_value=2, max_value=8 if tier == "quick" else 20))
    ops = []
    for _ in range(n):
        k = draw(st.sampled_from([0, 0, 0, 1, -1, 2, -2]))
        ops.append(["L", draw(st.booleans()), (lv + k) * tick, draw(st.integers(1, 3)), draw(st.sampled_from([None, None, 2])), draw(st.integers(0, 3))])
        r = draw(st.integers(0, 5))
        if r == 0:
            ops.append(["X"])
        elif r == 1:
            ops.append(["T"])
    ops.append(["X"])
    return {"tick": tick, "p0": lv * tick, "continuous": draw(st.booleans()), "running0": True, "ops": ops, "rewrite_every": None,
            "odd_level": bool(odd)}


PARTS["odd_levels"] = {"check": make_check({"C03"}, lambda f: bool(f.get("rounds_with_fills"))), "strategy": _odd_level_cases, "budget": {"quick": 1500, "thorough": 30000}}


# -- rounds as the runner triggers them (sessions, halts, events around the matching engine) --------------------------------


@st.composite
def _sim_cases(draw, tier):
    from . import c09, c16
    if draw(st.booleans()):
        return dict(draw(c16.cases(tier)), family="halt")
    return dict(draw(c09.cases(tier)), family="sessions")


def _sim_check(case):
    from ._sim_common import summarize
    from ..oracles import Analysis, check_round_follows
    # an exception escaping the matching round surfaces here as PamsCrash and is attributed through its innermost pams frame
    # (pams/market.py is C03's anchor)
    res = run_case(case, {"exec_state": True})
    A = Analysis(case, res)
    sim = A.sim
    halt_rule = any(isinstance(v, dict) and v.get("class") == "TradingHaltRule" and v.get("enabled", True) for v in case["config"].values())
    # (with a halt rule around, "a round follows" is judged only where no halt intervened: see oracles.check_round_follows)
    try:
        checks = check_round_follows(A, "C03")
    except Violation as v:
        raise Violation("C03.clears_every_executable_pair", v.message)
    rounds = sum(1 for k, kw in A.items if k == "log.write" and isinstance(kw["log"], ExecutionLog))
    nt = rounds >= 2
    classes = [case.get("family", "?")] + (["fills"] if rounds else []) + (["halt_rule"] if halt_rule else [])
    return CaseInfo(nontrivial=nt, classes=classes, steps=A.total_steps, sample={"case": summarize(case), "fills": rounds, "checks": checks})


PARTS["sim"] = {"check": _sim_check, "strategy": _sim_cases, "budget": {"quick": 1500, "thorough": 30000}}


def vacuity(merged, tier):
    if frac(merged, "machine", "round_market_both_sides") < 0.02:
        return "too few histories run a round with market orders on both sides"
    if frac(merged, "machine", "round_crossed_two_levels") < 0.02:
        return "too few histories run a round on a multi-level crossed book"
    return None
