"""C03 -- a matching round clears every executable pair and never fails."""
from ..market_machine import market_cases
from ._market_common import frac, fuzz_part, make_check

ID = "C03"
RULE = ("Histories as for C01 with batch mode weighted 3:1 and 15-30% market orders, so that crossed books with market "
        "orders on one or both sides accumulate while matching is off. After every round: no exception, post-state "
        "uncrossed (on the independent model driven by the actual fills and on pams' getters), per-order fill totals equal "
        "the reference greedy walk. Non-trivial = history with a round on a book crossed by >=2 levels or holding market "
        "orders on both sides.")
ASSUMPTIONS = ["the part 'nonpositive' uses limit prices <= 0, which pams accepts with a warning; all other parts use positive prices",
               "thorough tier adds a coverage-guided atheris campaign over byte-decoded histories (16 processes, half from an empty corpus); its saved decoded case, not the campaign, is the reproducible unit",
               "when both best orders are market orders (outside C03's premise) the engine's decision not to run a round is accepted"]


def _nt(f):
    return bool(f.get("round_crossed_two_levels") or f.get("round_market_both_sides"))


def _strategy(tier):
    return market_cases(max_ops=60 if tier == "quick" else 300, market_frac=4, batch_bias=True, match_weight=4)


def _deep_strategy(tier):
    # deep, mostly uncrossed books with many cancels from the middle, swept by drain probes
    return market_cases(max_ops=60 if tier == "quick" else 300, market_frac=1, deep=True, toggles=False)


PARTS = {"machine": {"check": make_check({"C03"}, _nt), "strategy": _strategy,
                     "budget": {"quick": 3000, "thorough": 60000}},
         "deep": {"check": make_check({"C03"}, _nt), "strategy": _deep_strategy, "budget": {"quick": 2000, "thorough": 40000}}}

def _nonpositive_strategy(tier):
    # books whose limit prices include zero and negative values (accepted by pams with a warning): rounds must still terminate
    # without raising and leave the book uncrossed
    return market_cases(max_ops=40 if tier == "quick" else 150, market_frac=3, nonpositive=True, batch_bias=True, match_weight=4)


PARTS["nonpositive"] = {"check": make_check({"C03"}, _nt), "strategy": _nonpositive_strategy, "budget": {"quick": 1500, "thorough": 40000}}
PARTS["fuzz"] = fuzz_part("C03", {"C03"}, _nt)


def vacuity(merged, tier):
    if frac(merged, "machine", "round_market_both_sides") < 0.02:
        return "too few histories run a round with market orders on both sides"
    if frac(merged, "machine", "round_crossed_two_levels") < 0.02:
        return "too few histories run a round on a multi-level crossed book"
    return None
