"""C08 -- market price, quotes and step statistics are what book and fills imply."""
from hypothesis import strategies as st

from ..market_machine import market_cases
from ._market_common import frac, fuzz_part, make_check

ID = "C08"
RULE = ("(one history in four sets the market up with the optional keys Market.setup documents -- tradeVolume, outstandingShares, fundamentalPrice -- which leave book and statistics alone) Histories as for C01 with running on/off toggles and expiries. After every op the real market's best bid/ask, "
        "both depth dicts, market/mid/last-executed price series, executed volume, turnover, order counts and VWAP are "
        "compared with the reference price state machine driven by the ACTUAL fills. Non-trivial = history with a "
        "running->off->running switch, a trade and an expiry that changes a best quote. "
        "(reopen) short histories built around a pause: 0-4 orders and rounds while running, the market switched off, 1-5 limit orders "
        "(with cancels of the best order and clock steps) while it is closed, switched on again, at most one event, then 1-3 quiet clock "
        "steps; non-trivial = the running state switched.")
ASSUMPTIONS = ["thorough tier adds a coverage-guided atheris campaign over byte-decoded histories (16 processes, half from an empty corpus); its saved decoded case, not the campaign, is the reproducible unit",
               "turnover compared with rel 1e-12, VWAP with rel 1e-9; everything else exactly"]


def _nt(f):
    return bool(f.get("off_then_on") and f.get("fills") and f.get("expiry_changes_best"))


def _strategy(tier):
    return market_cases(max_ops=80 if tier == "quick" else 300, market_frac=2, toggles=True, pre_ticks=True, jumps=True)


PARTS = {"machine": {"check": make_check({"C08"}, _nt), "strategy": _strategy,
                     "budget": {"quick": 3000, "thorough": 60000}}}

def _deep_strategy(tier):
    # deep, mostly uncrossed books with many cancels from the middle (and of the best order)
    return market_cases(max_ops=60 if tier == "quick" else 300, market_frac=1, deep=True, toggles=False)


PARTS["deep"] = {"check": make_check({"C08"}, _nt), "strategy": _deep_strategy, "budget": {"quick": 2000, "thorough": 40000}}
PARTS["fuzz"] = fuzz_part("C08", {"C08"}, _nt)


@st.composite
def _reopen_cases(draw, tier):
    """what a market shows after a pause: orders (and cancels) arrive while it is closed, it is switched back on, and quiet
    clock steps follow -- the market price of those steps comes from the clock step alone (last trade, else mid quote), since no
    order event refreshes it in between"""
    tick = draw(st.sampled_from([1.0, 0.5, 0.1, 2.5]))
    lv = draw(st.integers(min_value=8, max_value=400))
    px = st.integers(min_value=-3, max_value=3).map(lambda k: (lv + k) * tick)

    def limit():
        return ["L", draw(st.booleans()), draw(px), draw(st.integers(1, 3)), draw(st.sampled_from([None, None, 1, 3])), draw(st.integers(0, 3))]

    ops = []
    running0 = draw(st.booleans())
    if running0:
        for _ in range(draw(st.integers(0, 4))):
            ops.append(limit())
            if draw(st.booleans()):
                ops.append(["X"])
        ops += [["T"]] * draw(st.integers(0, 2))
        ops.append(["R", False])
    for _ in range(draw(st.integers(1, 5))):
        ops.append(limit())
        r = draw(st.integers(0, 5))
        if r == 0:
            ops.append(["CB", draw(st.booleans())])
        elif r == 1:
            ops.append(["T"])
    ops.append(["R", True])
    if draw(st.integers(0, 2)) == 0:
        ops.append(draw(st.sampled_from([["X"], ["CB", True], ["CB", False]])))
    ops += [["T"]] * draw(st.integers(1, 3))
    if draw(st.booleans()):
        ops += [limit(), ["X"], ["T"]]
    return {"tick": tick, "p0": (lv + draw(st.integers(-5, 5))) * tick, "continuous": draw(st.booleans()), "running0": running0, "ops": ops,
            "rewrite_every": None}


PARTS["reopen"] = {"check": make_check({"C08"}, lambda f: bool(f.get("run_switch"))), "strategy": _reopen_cases, "budget": {"quick": 1500, "thorough": 30000}}


def vacuity(merged, tier):
    if frac(merged, "machine", "run_switch") < 0.08:
        return "too few histories switch running"
    if frac(merged, "machine", "expiry") < 0.08:
        return "too few histories contain an expiry"
    return None
