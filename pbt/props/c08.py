"""C08 -- market price, quotes and step statistics are what book and fills imply."""
from ..market_machine import market_cases
from ._market_common import frac, fuzz_part, make_check

ID = "C08"
RULE = ("(one history in four sets the market up with the optional keys Market.setup documents -- tradeVolume, outstandingShares, fundamentalPrice -- which leave book and statistics alone) Histories as for C01 with running on/off toggles and expiries. After every op the real market's best bid/ask, "
        "both depth dicts, market/mid/last-executed price series, executed volume, turnover, order counts and VWAP are "
        "compared with the reference price state machine driven by the ACTUAL fills. Non-trivial = history with a "
        "running->off->running switch, a trade and an expiry that changes a best quote.")
ASSUMPTIONS = ["thorough tier adds a coverage-guided atheris campaign over byte-decoded histories (16 processes, half from an empty corpus); its saved decoded case, not the campaign, is the reproducible unit",
               "turnover compared with rel 1e-12, VWAP with rel 1e-9; everything else exactly"]


def _nt(f):
    return bool(f.get("off_then_on") and f.get("fills") and f.get("expiry_changes_best"))


def _strategy(tier):
    return market_cases(max_ops=80 if tier == "quick" else 300, market_frac=2, toggles=True, pre_ticks=True, jumps=True)


PARTS = {"machine": {"check": make_check({"C08"}, _nt), "strategy": _strategy,
                     "budget": {"quick": 3000, "thorough": 60000}}}

def _deep_strategy(tier):
    # deep, mostly uncrossed books with many cancels from the middle (and of the best order)
    return market_cases(max_ops=60 if tier == "quick" else 300, market_frac=1, deep=True, toggles=False)


PARTS["deep"] = {"check": make_check({"C08"}, _nt), "strategy": _deep_strategy, "budget": {"quick": 2000, "thorough": 40000}}
PARTS["fuzz"] = fuzz_part("C08", {"C08"}, _nt)


def vacuity(merged, tier):
    if frac(merged, "machine", "run_switch") < 0.08:
        return "too few histories switch running"
    if frac(merged, "machine", "expiry") < 0.08:
        return "too few histories contain an expiry"
    return None
