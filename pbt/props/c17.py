"""C17 -- index market values are share-weighted averages of their components."""
import math
import random
import warnings

from hypothesis import strategies as st

from ..common import CaseInfo, PamsCrash, Violation, classify_exception
from ..oracles import Analysis
from ..simharness import IndexMarket, Market, run_case
from ..strategies import market_names, crossing_pair, program_strategy, spec_strategy
from ._sim_common import frac, summarize

warnings.simplefilter("ignore")
from pams.simulator import Simulator  # noqa: E402

ID = "C17"
RULE = ("(one case in four has a component of a user-defined market class that publishes its own price / fundamental numbers -- the index averages what its components report; one in four carries the obsolete requires key, which adds no component) (sim) Hypothesis generates 2-4 component markets with unequal outstandingShares (1..10^6, and values whose sum exceeds 2^63), an index market over 2..all "
        "of them, volatile fundamentals, fundamental shocks, and scripted agents trading components and index. At every "
        "before-step hook, every step-end record and at the end, for every t <= now: get_index(t) == get_market_index(t) == "
        "compute_market_index(t) == sum(s_i p_i(t)) / sum(s_i) (math.fsum reference, rel 1e-12); at the first observation "
        "after each clock advance (before any shock of the step) the index market's fundamental price for the new time equals "
        "the same weighted average of the components' fundamentals. Non-trivial = unequal shares and component prices that "
        "differ from each other at some time. (setup) an index over a repeated component, or over a component without "
        "outstandingShares, must be refused at setup. In two cases of five the index entry also carries a spot market's fundamental settings "
        "(own keys or through 'extends' of a component), which an index must ignore; market names are prefixes / case variants of one another in three cases of four; one case in four has an index of indices (IDX, with its own traded price and declared shares, is a component of IDX2). "
        "(regrow) registrations after setup through _add_market / _add_markets, some refused (duplicate, no shares): the component list equals the accepted registrations "
        "and get_index / compute_market_index / recorded and computed fundamental index equal the weighted average over exactly those, at every time of a short run; non-trivial = >=1 refused registration.")
ASSUMPTIONS = ["a component's fundamental may be shocked later in the same step; the index fundamental is compared before that happens"]

OPTS = {"fundamentals": True, "index_queries": True}


@st.composite
def cases(draw, tier):
    nm = draw(st.integers(2, 4))
    names = market_names(draw, nm)
    cfg = {"simulation": {"markets": list(names) + ["IDX"], "agents": ["A0"], "sessions": []}}
    for n in names:
        cfg[n] = {"class": "Market", "tickSize": draw(st.sampled_from([1.0, 0.5, 0.01])), "marketPrice": draw(st.sampled_from([100.0, 250.0, 999.5, 13.0])),
                  "outstandingShares": draw(st.one_of(st.sampled_from([1, 7, 100, 12345, 10**6, 10**12, 6 * 10**18, 4 * 10**18, 2**63]), st.integers(1, 10**6))),
                  "fundamentalVolatility": draw(st.sampled_from([0.0, 0.01, 0.05])), "fundamentalDrift": draw(st.sampled_from([0.0, 0.002]))}
    k = draw(st.integers(2, nm))
    comps = draw(st.permutations(names))[:k]
    if len(comps) >= 3 and draw(st.integers(0, 3)) == 0:
        # unequal shares whose mean is exactly the share count of the FIRST listed component
        mean_, d_ = draw(st.sampled_from([200, 5000])), draw(st.sampled_from([1, 100]))
        for n_, s_ in zip(comps, [mean_, mean_ - d_, mean_ + d_] + [mean_] * (len(comps) - 3)):
            cfg[n_]["outstandingShares"] = s_
    cfg["IDX"] = {"class": "IndexMarket", "tickSize": draw(st.sampled_from([1.0, 0.01])), "marketPrice": draw(st.sampled_from([100.0, 300.0])), "markets": list(comps)}
    if draw(st.integers(0, 3)) == 0:
        # a component of a user-defined market class that publishes its own price / fundamental numbers: the index averages what its
        # components report
        cfg[draw(st.sampled_from(comps))]["class"] = "VQuotedMarket"
    if draw(st.integers(0, 3)) == 0:
        # the obsolete 'requires' key (accepted with a warning): it does not add components
        cfg["IDX"]["requires"] = draw(st.lists(st.sampled_from(names), min_size=1, max_size=nm, unique=True))
    extra = draw(st.sampled_from(["none", "none", "none", "own_keys", "extends"]))
    if extra == "own_keys":
        # settings of a spot market's fundamental process on the index entry: an index has no process of its own
        cfg["IDX"].update({"fundamentalVolatility": draw(st.sampled_from([0.0, 0.03])), "fundamentalDrift": draw(st.sampled_from([0.0, 0.01])),
                           "fundamentalPrice": draw(st.sampled_from([50.0, 300.0]))})
    elif extra == "extends":
        # the index entry reuses a spot template (tick size, fundamental settings, shares) through "extends"
        cfg["IDX"]["extends"] = draw(st.sampled_from(names))
    if draw(st.integers(0, 3)) == 0:
        # an index of indices: the first index (a market with its own traded price and declared shares) is a component of a second one
        cfg["IDX"]["outstandingShares"] = draw(st.sampled_from([1, 50, 12345]))
        cfg["IDX2"] = {"class": "IndexMarket", "tickSize": 1.0, "marketPrice": draw(st.sampled_from([100.0, 300.0])),
                       "markets": draw(st.permutations(["IDX", draw(st.sampled_from(names))]))}
        cfg["simulation"]["markets"].append("IDX2")
    spec = spec_strategy(offs=[-4, -2, -1, 0, 1, 2, 4], n_mi=nm + 1, own_cancel=False)
    cfg["A0"] = {"class": "VScriptedAgent", "numAgents": draw(st.integers(2, 5)), "markets": list(names) + ["IDX"], "assetVolume": 10, "cashAmount": 1000,
                 "scripts": draw(st.lists(program_strategy(spec, max_actions=5, decline_weight=0), min_size=1, max_size=3))}
    cfg["B0"] = crossing_pair(list(names) + ["IDX"])
    cfg["simulation"]["agents"].append("B0")
    cfg["P"] = {"class": "VProbeEvent", "hooks": [["market", True, None, None, None], ["market", False, None, None, None]]}
    if draw(st.integers(0, 3)) == 0:
        # the share count of a component changes in mid-run (a user event assigns the public attribute): the weights are the live ones
        cfg["P"]["reshare"] = {"at": draw(st.integers(0, 6)), "market": draw(st.sampled_from(comps)), "shares": draw(st.sampled_from([1, 9, 777, 10**7]))}
    events = ["P"]
    if draw(st.booleans()):
        cfg["SH"] = {"class": "FundamentalPriceShock", "target": draw(st.sampled_from(comps)), "triggerTime": draw(st.integers(0, 6)),
                     "priceChangeRate": draw(st.sampled_from([0.2, -0.1])), "shockTimeLength": draw(st.integers(1, 3))}
        events.append("SH")
    for s in range(draw(st.integers(1, 2))):
        cfg["simulation"]["sessions"].append({"sessionName": s, "iterationSteps": draw(st.integers(2, 10 if tier == "quick" else 60)), "withOrderPlacement": True,
                                              "withOrderExecution": draw(st.sampled_from([True, True, False])), "withPrint": False,
                                              "maxNormalOrders": draw(st.integers(1, 5)), "events": events if s == 0 else []})
    return {"config": cfg, "seed": draw(st.integers(0, 2**31 - 1))}


def weighted(vals, shares):
    return math.fsum(v * s for v, s in zip(vals, shares)) / sum(shares)


def check_index_history(idx, comps, shares, upto, where):
    for t in range(upto + 1):
        want = weighted([c.get_market_price(t) for c in comps], shares)
        for g in ("get_index", "get_market_index", "compute_market_index"):
            got = getattr(idx, g)(t)
            if not math.isclose(got, want, rel_tol=1e-12):
                raise Violation("C17.index_is_weighted_average", f"{where}: {g}({t}) = {got!r}, share-weighted average of component prices = {want!r} "
                                                                 f"(shares {shares}, prices {[c.get_market_price(t) for c in comps]})")
    want = weighted([c.get_market_price() for c in comps], shares)
    if not math.isclose(idx.get_index(), want, rel_tol=1e-12):
        raise Violation("C17.index_is_weighted_average", f"{where}: get_index() = {idx.get_index()!r} vs {want!r}")


def check_case(case):
    try:
        res = run_case(case, OPTS)
    except PamsCrash as c:
        # an index that cannot be evaluated on an admissible configuration (its computation is on the stack of the failure)
        if any(f[0].endswith("index_market.py") for f in c.pams_frames):
            raise Violation("C17.index_cannot_be_computed", f"{c.exc_type}: {c.exc_msg} (index markets {[n for n in ('IDX', 'IDX2') if n in case['config']]}, "
                                                            f"components {[case['config'][n]['markets'] for n in ('IDX', 'IDX2') if n in case['config']]})", c.tb_text)
        raise
    A = Analysis(case, res)
    sim, cfg = A.sim, case["config"]
    # explicit queries for the step in progress, before its orders and after them: each answer equals the weighted average of what
    # the components report at that very moment
    for k, kw in A.items:
        if k == "hook" and kw.get("idxq"):
            for mid, t, v1, v2, comps_now in kw["idxq"]:
                tot_ = sum(s_ for _, s_ in comps_now)
                want_ = math.fsum(p_ * s_ for p_, s_ in comps_now) / tot_
                if not (math.isclose(v1, want_, rel_tol=1e-12) and math.isclose(v2, want_, rel_tol=1e-12)):
                    raise Violation("C17.index_is_weighted_average", f"{kw['what']} hook at time {t}: index market {mid} answers get_index({t}) = {v1!r} / get_market_index = {v2!r}, "
                                                                     f"its components report (price, shares) {comps_now}: weighted average {want_!r}")
    n_fund = 0
    for iname in [n for n in ("IDX2", "IDX") if n in cfg]:
        idx = sim.name2market[iname]
        comps = [sim.name2market[n] for n in cfg[iname]["markets"]]
        shares = [cfg[n]["outstandingShares"] for n in cfg[iname]["markets"]]
        if [c.market_id for c in idx.get_components()] != [c.market_id for c in comps]:
            raise Violation("C17.components", f"get_components() of {iname} differs from the configured component list {cfg[iname]['markets']}")
        ci = [sim.markets.index(c) for c in comps]
        ii = sim.markets.index(idx)
        seen_t = set()
        for k, kw in A.items:
            if k == "hook" and kw["what"] == "market_before":
                t = kw["times"][0]
                if t in seen_t:
                    continue
                seen_t.add(t)
                live = [kw["shares"][j] for j in ci] if kw.get("shares") else shares  # the share counts in force when the clock advanced
                want = weighted([kw["fund"][j] for j in ci], live)
                got = kw["fund"][ii]
                n_fund += 1
                if not math.isclose(got, want, rel_tol=1e-12):
                    raise Violation("C17.index_fundamental", f"after the clock advanced to {t}: fundamental of {iname} {got!r}, share-weighted average of component "
                                                             f"fundamentals {want!r} (components {cfg[iname]['markets']}, shares {shares})")
        final = idx.get_time()
        shares = [c.outstanding_shares for c in comps]  # (the live counts: equal to the configured ones unless a reshare happened)
        check_index_history(idx, comps, shares, final, f"end of run, {iname}")
        if idx.get_fundamental_index(0) != idx.get_fundamental_price(0):
            raise Violation("C17.fundamental_index_getter", "")
    differ = any(len({c.get_market_price(t) for c in comps}) > 1 for t in range(final + 1))
    moved = any(c.get_market_price(final) != c.get_market_price(0) for c in comps)
    nt = len(set(shares)) > 1 and differ
    classes = (["unequal_shares"] if len(set(shares)) > 1 else []) + (["prices_differ"] if differ else []) + (["prices_moved"] if moved else []) + \
              (["shock"] if "SH" in cfg else []) + (["index_of_indices"] if "IDX2" in cfg else [])
    return CaseInfo(nontrivial=nt, classes=classes, steps=final,
                    sample={"components": cfg["IDX"]["markets"], "shares": shares, "final_prices": [c.get_market_price() for c in comps],
                            "index": idx.get_index(), "fundamental_checks": n_fund, "seed": case["seed"]})


setup_cases = st.fixed_dictionaries({"kind": st.sampled_from(["repeated", "no_shares", "ok"]), "n": st.integers(2, 4),
                                     "shares": st.lists(st.integers(1, 10**6), min_size=4, max_size=4), "dup": st.integers(0, 3),
                                     "via_runner": st.booleans()})


def _setup_via_runner(case):
    """the same three situations as a configuration handed to the runner (which fills in defaults before the index sees them)"""
    from pams.logs.base import Logger
    from pams.runners.sequential import SequentialRunner
    names = [f"M{i}" for i in range(case["n"])]
    cfg = {"simulation": {"markets": names + ["IDX"], "agents": ["A"],
                          "sessions": [{"sessionName": 0, "iterationSteps": 2, "withOrderPlacement": False, "withOrderExecution": False, "withPrint": False}]},
           "A": {"class": "TestAgent", "numAgents": 1, "markets": [names[0]], "cashAmount": 100, "assetVolume": 1}}
    for i, nme in enumerate(names):
        cfg[nme] = {"class": "Market", "tickSize": 1.0, "marketPrice": 100.0 + 50 * i}
        if not (case["kind"] == "no_shares" and i == case["dup"] % case["n"]):
            cfg[nme]["outstandingShares"] = case["shares"][i]
    comps = list(names) + ([names[case["dup"] % case["n"]]] if case["kind"] == "repeated" else [])
    cfg["IDX"] = {"class": "IndexMarket", "tickSize": 1.0, "marketPrice": 100.0, "markets": comps}
    r = SequentialRunner(settings=cfg, prng=random.Random(1), logger=Logger())
    try:
        r._setup()
    except (ValueError, AssertionError):
        if case["kind"] == "ok":
            raise Violation("C17.setup_refuses_valid", f"{case}")
        return CaseInfo(nontrivial=True, classes=[case["kind"], "via_runner"], sample=case)
    if case["kind"] != "ok":
        idx = r.simulator.name2market["IDX"]
        raise Violation("C17.setup_accepts_invalid_components", f"the runner set up an index over components {comps} ({case['kind']}); component shares "
                                                                f"{[c.outstanding_shares for c in idx.get_components()]}")
    return CaseInfo(nontrivial=True, classes=["ok", "via_runner"], sample=case)


def setup_check(case):
    if case.get("via_runner"):
        return _setup_via_runner(case)
    sim = Simulator(prng=random.Random(0))
    names = []
    for i in range(case["n"]):
        m = Market(market_id=i, prng=random.Random(i), simulator=sim, name=f"M{i}")
        s = {"tickSize": 1.0, "marketPrice": 100.0 + i}
        if not (case["kind"] == "no_shares" and i == case["dup"] % case["n"]):
            s["outstandingShares"] = case["shares"][i]
        m.setup(s)
        sim._add_market(m)
        names.append(m.name)
    comps = list(names)
    if case["kind"] == "repeated":
        comps.append(names[case["dup"] % case["n"]])
    idx = IndexMarket(market_id=case["n"], prng=random.Random(9), simulator=sim, name="IDX")
    try:
        idx.setup({"tickSize": 1.0, "marketPrice": 100.0, "markets": comps})
    except (ValueError, AssertionError):
        if case["kind"] == "ok":
            raise Violation("C17.setup_refuses_valid", f"{case}")
        return CaseInfo(nontrivial=True, classes=[case["kind"]], sample=case)
    if case["kind"] != "ok":
        raise Violation("C17.setup_accepts_invalid_components", f"index setup accepted components {comps} ({case['kind']})")
    return CaseInfo(nontrivial=True, classes=["ok"], sample=case)


@st.composite
def regrow_cases(draw, tier):
    n = draw(st.integers(2, 5))
    return {"n": n, "shares": [draw(st.one_of(st.none(), st.integers(1, 10**6))) if i >= 2 else draw(st.integers(1, 10**6)) for i in range(n)],
            "prices": [draw(st.sampled_from([50.0, 100.0, 333.0, 1000.5])) for _ in range(n)],
            "fund": [draw(st.sampled_from([40.0, 100.0, 700.25])) for _ in range(n)],
            "drift": [draw(st.sampled_from([0.0, 0.01, -0.02])) for _ in range(n)],
            "initial": draw(st.integers(1, 2)),
            # a component registered programmatically BEFORE setup reads the "markets" list (a subclass may do that): it stays one
            "pre": draw(st.booleans()),
            "adds": draw(st.lists(st.tuples(st.booleans(), st.lists(st.integers(0, n - 1), min_size=1, max_size=3)), min_size=1, max_size=5)),
            "steps": draw(st.integers(1, 4))}


def regrow_check(case):
    """component registrations after setup, some of them refused (a component twice, a market without shares): the index keeps
    averaging exactly the accepted components."""
    import math
    sim = Simulator(prng=random.Random(0))
    n = case["n"]
    mk = []
    for i in range(n):
        m = Market(market_id=i, prng=random.Random(i), simulator=sim, name=f"M{i}")
        s_ = {"tickSize": 1.0, "marketPrice": case["prices"][i], "fundamentalPrice": case["fund"][i]}
        if case["shares"][i] is not None:
            s_["outstandingShares"] = case["shares"][i]
        m.setup(s_)
        sim._add_market(m)
        sim.fundamentals.add_market(market_id=i, initial=case["fund"][i], drift=case["drift"][i], volatility=0.0)
        mk.append(m)
    idx = IndexMarket(market_id=n, prng=random.Random(9), simulator=sim, name="IDX")
    pre = [n - 1] if case.get("pre") and case["shares"][n - 1] is not None and n - 1 >= case["initial"] else []
    for i in pre:
        idx._add_market(mk[i])
    idx.setup({"tickSize": 1.0, "marketPrice": 100.0, "markets": [m.name for m in mk[:case["initial"]]]})
    sim._add_market(idx)
    accepted = pre + list(range(case["initial"]))
    refused = grown = 0
    for bulk, ids in case["adds"]:
        if bulk:
            # _add_markets registers one by one: the valid prefix of the list is kept, the first invalid entry raises
            try:
                idx._add_markets([mk[i] for i in ids])
            except (ValueError, AssertionError):
                refused += 1
            for i in ids:
                if i in accepted or case["shares"][i] is None:
                    break
                accepted.append(i)
                grown += 1
        else:
            i = ids[0]
            ok = i not in accepted and case["shares"][i] is not None
            try:
                idx._add_market(mk[i])
                if not ok:
                    raise Violation("C17.setup_accepts_invalid_components", f"market {i} accepted as a component (components so far {accepted}, shares {case['shares'][i]})")
                accepted.append(i)
                grown += 1
            except (ValueError, AssertionError):
                if ok:
                    raise Violation("C17.setup_refuses_valid", f"market {i} with shares {case['shares'][i]} refused (components so far {accepted})")
                refused += 1
        if [c.market_id for c in idx.get_components()] != accepted:
            raise Violation("C17.components", f"components {[c.market_id for c in idx.get_components()]}, accepted registrations {accepted}")
    tot = sum(case["shares"][i] for i in accepted)
    for t in range(case["steps"] + 1):
        sim._update_times_on_markets(sim.markets)
        want_f = sum(mk[i].get_fundamental_price(t) * case["shares"][i] for i in accepted) / tot
        want_p = sum(mk[i].get_market_price(t) * case["shares"][i] for i in accepted) / tot
        for nm, got, want in (("get_index", idx.get_index(t), want_p), ("compute_market_index", idx.compute_market_index(t), want_p),
                              ("recorded fundamental", idx.get_fundamental_price(t), want_f), ("compute_fundamental_index", idx.compute_fundamental_index(t), want_f)):
            if not math.isclose(got, want, rel_tol=1e-12):
                raise Violation("C17.weighted_average", f"{nm} at time {t} is {got!r}, share-weighted average of the components {accepted} is {want!r} "
                                                         f"({refused} refused and {grown} accepted registrations after setup)")
    return CaseInfo(nontrivial=refused > 0, classes=(["refused"] if refused else []) + (["grown"] if grown else []), steps=len(case["adds"]), sample=case)


PARTS = {
    "sim": {"check": check_case, "strategy": cases, "budget": {"quick": 3000, "thorough": 40000}},
    "setup": {"check": setup_check, "strategy": lambda tier: setup_cases, "budget": {"quick": 300, "thorough": 3000}},
    "regrow": {"check": regrow_check, "strategy": regrow_cases, "budget": {"quick": 1000, "thorough": 20000}},
}


def vacuity(merged, tier):
    for cls, lim in (("unequal_shares", 0.28), ("prices_differ", 0.28), ("prices_moved", 0.2)):
        if frac(merged, "sim", cls) < lim:
            return f"class {cls} below {lim:.0%} of runs"
    return None
