"""C17 -- index market values are share-weighted averages of their components."""
import math
import random
import warnings

from hypothesis import strategies as st

from ..common import CaseInfo, Violation, classify_exception
from ..oracles import Analysis
from ..simharness import IndexMarket, Market, run_case
from ..strategies import crossing_pair, program_strategy, spec_strategy
from ._sim_common import frac, summarize

warnings.simplefilter("ignore")
from pams.simulator import Simulator  # noqa: E402

ID = "C17"
RULE = ("(sim) Hypothesis generates 2-4 component markets with unequal outstandingShares (1..10^6, and values whose sum exceeds 2^63), an index market over 2..all "
        "of them, volatile fundamentals, fundamental shocks, and scripted agents trading components and index. At every "
        "before-step hook, every step-end record and at the end, for every t <= now: get_index(t) == get_market_index(t) == "
        "compute_market_index(t) == sum(s_i p_i(t)) / sum(s_i) (math.fsum reference, rel 1e-12); at the first observation "
        "after each clock advance (before any shock of the step) the index market's fundamental price for the new time equals "
        "the same weighted average of the components' fundamentals. Non-trivial = unequal shares and component prices that "
        "differ from each other at some time. (setup) an index over a repeated component, or over a component without "
        "outstandingShares, must be refused at setup.")
ASSUMPTIONS = ["a component's fundamental may be shocked later in the same step; the index fundamental is compared before that happens"]

OPTS = {"fundamentals": True}


@st.composite
def cases(draw, tier):
    nm = draw(st.integers(2, 4))
    names = [f"M{i}" for i in range(nm)]
    cfg = {"simulation": {"markets": list(names) + ["IDX"], "agents": ["A0"], "sessions": []}}
    for n in names:
        cfg[n] = {"class": "Market", "tickSize": draw(st.sampled_from([1.0, 0.5, 0.01])), "marketPrice": draw(st.sampled_from([100.0, 250.0, 999.5, 13.0])),
                  "outstandingShares": draw(st.one_of(st.sampled_from([1, 7, 100, 12345, 10**6, 10**12, 6 * 10**18, 4 * 10**18, 2**63]), st.integers(1, 10**6))),
                  "fundamentalVolatility": draw(st.sampled_from([0.0, 0.01, 0.05])), "fundamentalDrift": draw(st.sampled_from([0.0, 0.002]))}
    k = draw(st.integers(2, nm))
    comps = draw(st.permutations(names))[:k]
    cfg["IDX"] = {"class": "IndexMarket", "tickSize": draw(st.sampled_from([1.0, 0.01])), "marketPrice": draw(st.sampled_from([100.0, 300.0])), "markets": list(comps)}
    spec = spec_strategy(offs=[-4, -2, -1, 0, 1, 2, 4], n_mi=nm + 1, own_cancel=False)
    cfg["A0"] = {"class": "VScriptedAgent", "numAgents": draw(st.integers(2, 5)), "markets": list(names) + ["IDX"], "assetVolume": 10, "cashAmount": 1000,
                 "scripts": draw(st.lists(program_strategy(spec, max_actions=5, decline_weight=0), min_size=1, max_size=3))}
    cfg["B0"] = crossing_pair(list(names) + ["IDX"])
    cfg["simulation"]["agents"].append("B0")
    cfg["P"] = {"class": "VProbeEvent", "hooks": [["market", True, None, None, None]]}
    events = ["P"]
    if draw(st.booleans()):
        cfg["SH"] = {"class": "FundamentalPriceShock", "target": draw(st.sampled_from(comps)), "triggerTime": draw(st.integers(0, 6)),
                     "priceChangeRate": draw(st.sampled_from([0.2, -0.1])), "shockTimeLength": draw(st.integers(1, 3))}
        events.append("SH")
    for s in range(draw(st.integers(1, 2))):
        cfg["simulation"]["sessions"].append({"sessionName": s, "iterationSteps": draw(st.integers(2, 10 if tier == "quick" else 60)), "withOrderPlacement": True,
                                              "withOrderExecution": draw(st.sampled_from([True, True, False])), "withPrint": False,
                                              "maxNormalOrders": draw(st.integers(1, 5)), "events": events if s == 0 else []})
    return {"config": cfg, "seed": draw(st.integers(0, 2**31 - 1))}


def weighted(vals, shares):
    return math.fsum(v * s for v, s in zip(vals, shares)) / sum(shares)


def check_index_history(idx, comps, shares, upto, where):
    for t in range(upto + 1):
        want = weighted([c.get_market_price(t) for c in comps], shares)
        for g in ("get_index", "get_market_index", "compute_market_index"):
            got = getattr(idx, g)(t)
            if not math.isclose(got, want, rel_tol=1e-12):
                raise Violation("C17.index_is_weighted_average", f"{where}: {g}({t}) = {got!r}, share-weighted average of component prices = {want!r} "
                                                                 f"(shares {shares}, prices {[c.get_market_price(t) for c in comps]})")
    want = weighted([c.get_market_price() for c in comps], shares)
    if not math.isclose(idx.get_index(), want, rel_tol=1e-12):
        raise Violation("C17.index_is_weighted_average", f"{where}: get_index() = {idx.get_index()!r} vs {want!r}")


def check_case(case):
    res = run_case(case, OPTS)
    A = Analysis(case, res)
    sim, cfg = A.sim, case["config"]
    idx = sim.name2market["IDX"]
    comps = [sim.name2market[n] for n in cfg["IDX"]["markets"]]
    shares = [cfg[n]["outstandingShares"] for n in cfg["IDX"]["markets"]]
    if [c.market_id for c in idx.get_components()] != [c.market_id for c in comps]:
        raise Violation("C17.components", "get_components() differs from the configured component list")
    ci = [sim.markets.index(c) for c in comps]
    ii = sim.markets.index(idx)
    seen_t = set()
    n_fund = 0
    for k, kw in A.items:
        if k == "hook" and kw["what"] == "market_before":
            t = kw["times"][0]
            if t in seen_t:
                continue
            seen_t.add(t)
            want = weighted([kw["fund"][j] for j in ci], shares)
            got = kw["fund"][ii]
            n_fund += 1
            if not math.isclose(got, want, rel_tol=1e-12):
                raise Violation("C17.index_fundamental", f"after the clock advanced to {t}: index fundamental {got!r}, share-weighted average of component "
                                                         f"fundamentals {want!r} (shares {shares})")
    final = idx.get_time()
    check_index_history(idx, comps, shares, final, "end of run")
    if idx.get_fundamental_index(0) != idx.get_fundamental_price(0):
        raise Violation("C17.fundamental_index_getter", "")
    differ = any(len({c.get_market_price(t) for c in comps}) > 1 for t in range(final + 1))
    moved = any(c.get_market_price(final) != c.get_market_price(0) for c in comps)
    nt = len(set(shares)) > 1 and differ
    classes = (["unequal_shares"] if len(set(shares)) > 1 else []) + (["prices_differ"] if differ else []) + (["prices_moved"] if moved else []) + \
              (["shock"] if "SH" in cfg else [])
    return CaseInfo(nontrivial=nt, classes=classes, steps=final,
                    sample={"components": cfg["IDX"]["markets"], "shares": shares, "final_prices": [c.get_market_price() for c in comps],
                            "index": idx.get_index(), "fundamental_checks": n_fund, "seed": case["seed"]})


setup_cases = st.fixed_dictionaries({"kind": st.sampled_from(["repeated", "no_shares", "ok"]), "n": st.integers(2, 4),
                                     "shares": st.lists(st.integers(1, 10**6), min_size=4, max_size=4), "dup": st.integers(0, 3)})


def setup_check(case):
    sim = Simulator(prng=random.Random(0))
    names = []
    for i in range(case["n"]):
        m = Market(market_id=i, prng=random.Random(i), simulator=sim, name=f"M{i}")
        s = {"tickSize": 1.0, "marketPrice": 100.0 + i}
        if not (case["kind"] == "no_shares" and i == case["dup"] % case["n"]):
            s["outstandingShares"] = case["shares"][i]
        m.setup(s)
        sim._add_market(m)
        names.append(m.name)
    comps = list(names)
    if case["kind"] == "repeated":
        comps.append(names[case["dup"] % case["n"]])
    idx = IndexMarket(market_id=case["n"], prng=random.Random(9), simulator=sim, name="IDX")
    try:
        idx.setup({"tickSize": 1.0, "marketPrice": 100.0, "markets": comps})
    except (ValueError, AssertionError):
        if case["kind"] == "ok":
            raise Violation("C17.setup_refuses_valid", f"{case}")
        return CaseInfo(nontrivial=True, classes=[case["kind"]], sample=case)
    if case["kind"] != "ok":
        raise Violation("C17.setup_accepts_invalid_components", f"index setup accepted components {comps} ({case['kind']})")
    return CaseInfo(nontrivial=True, classes=["ok"], sample=case)


PARTS = {
    "sim": {"check": check_case, "strategy": cases, "budget": {"quick": 3000, "thorough": 40000}},
    "setup": {"check": setup_check, "strategy": lambda tier: setup_cases, "budget": {"quick": 300, "thorough": 3000}},
}


def vacuity(merged, tier):
    for cls, lim in (("unequal_shares", 0.28), ("prices_differ", 0.28), ("prices_moved", 0.2)):
        if frac(merged, "sim", cls) < lim:
            return f"class {cls} below {lim:.0%} of runs"
    return None
