"""C07 -- reproducibility: configuration and seed determine the whole run."""
import copy
import json
import os
import random
import subprocess
import sys

import numpy as np
from hypothesis import strategies as st

from ..common import (CaseInfo, PamsCrash, Recorder, VERIF_DIR, Violation, _new_result, derive_seed, run_hypothesis)
from ..strategies import crossing_pair, sample_cases, sim_cases
from ._sim_common import summarize

ID = "C07"
RULE = ("(one logger object serves all runs of a worker process, replaced after an aborted run; half of the configurations mix volatile and deterministic markets; the index entry may be listed before an unrelated market) Three cases in four: Hypothesis generates configurations that mix scripted agents with (traced and plain) built-in FCN, market-share FCN, "
        "market-maker, arbitrage and test agents, Market and IndexMarket, correlated volatile fundamentals, and the built-in "
        "events (fundamental shock, order mistake, price limit, trading halt) plus probe events, 1-3 sessions of 1-40 steps "
        "(120 thorough), and a runner seed; one case in four is one of the repository's sample configurations (CI2002, fat_finger, "
        "price_limit, shock_transfer, test, trading_halt) scaled down to 4-30 agents per group and 40-180 steps. The digest (SHA-256 over every logger record, every agent consultation and "
        "callback, every hook invocation, all market series, final books and holdings, serialised by field values) of the run "
        "must be identical (a) for two runs in one process, the second after 1000 draws from random / numpy.random and an "
        "earlier run of a different configuration B (independent, or derived from A: same ids but other volatilities / "
        "correlations / prices / seed, so that state keyed by ids would leak), and (b) in 2 (quick) / 4 (thorough) FRESH "
        "interpreters per case started with different PYTHONHASHSEED values (drawn per case from 1..4000) and differently seeded "
        "global generators (the last of them under python -O, i.e. with assert statements stripped), and (c) when the members of every settings object are listed in reverse order (a JSON object is unordered; arrays keep their order); the settings dict must be deep-equal before and after; a different seed must change the digest. "
        "Non-trivial = configuration with >=3 agent classes and >=1 event whose run has >=50 log records.")
ASSUMPTIONS = ["hash-seed dependence that needs a specific collision pattern may need more hash seeds than were used (stated above)"]

N_WORKERS = {"quick": 2, "thorough": 4}


@st.composite
def cases(draw, tier):
    big = tier == "thorough"
    case = draw(sim_cases(n_markets=(2, 3), index_prob=1, vol_zero=None if draw(st.booleans()) else False, builtin=True, correlations=True, n_sessions=(1, 3),
                          steps=(1, 40) if big else (1, 14), agents_per_group=(1, 3), placement=True, probes=True, caps=(1, 5),
                          random_endowment=True))
    cfg = case["config"]
    names = [m for m in cfg["simulation"]["markets"] if m != "IDX"]
    allm = list(cfg["simulation"]["markets"])
    # plain (untraced) built-in classes as well
    if draw(st.booleans()):
        cfg["PF"] = {"class": "FCNAgent", "numAgents": draw(st.integers(1, 5)), "markets": allm, "assetVolume": 50, "cashAmount": 10000,
                     "fundamentalWeight": {"expon": [1.0]}, "chartWeight": {"expon": [0.1]}, "noiseWeight": {"expon": [1.0]}, "noiseScale": 0.001,
                     "timeWindowSize": [5, 20], "orderMargin": [0.0, 0.1], "marginType": draw(st.sampled_from(["fixed", "normal"]))}
        cfg["simulation"]["agents"].append("PF")
    if draw(st.booleans()):
        cfg["PT"] = {"class": "TestAgent", "numAgents": draw(st.integers(1, 3)), "markets": allm, "assetVolume": 50, "cashAmount": 10000}
        cfg["simulation"]["agents"].append("PT")
    cfg["B0"] = crossing_pair(names)
    cfg["simulation"]["agents"].append("B0")
    if draw(st.booleans()):
        # a group declared by an id range that is ALSO the 'extends' parent of another group (non-inheritable keys in play)
        n0 = cfg["A0"].pop("numAgents")
        lo = draw(st.sampled_from([0, 3]))
        cfg["A0"]["from"], cfg["A0"]["to"] = lo, lo + n0 - 1
        cfg["AX"] = {"extends": "A0", "numAgents": draw(st.integers(1, 3)), "cashAmount": 5000}
        cfg["simulation"]["agents"].append("AX")
    if draw(st.booleans()):
        s0 = cfg["simulation"]["sessions"][0]
        # deprecated spellings of two session keys
        if "maxHighFrequencyOrders" in s0:
            s0["maxHifreqOrders"] = s0.pop("maxHighFrequencyOrders")
        if "highFrequencySubmitRate" in s0:
            s0["hifreqSubmitRate"] = s0.pop("highFrequencySubmitRate")
    evs = []
    kinds = draw(st.lists(st.sampled_from(["fshock", "mistake", "limit", "halt"]), max_size=3, unique=True))
    for k in kinds:
        if k == "fshock":
            cfg["EF"] = {"class": "FundamentalPriceShock", "target": draw(st.sampled_from(names)), "triggerTime": draw(st.integers(0, 5)),
                         "priceChangeRate": draw(st.sampled_from([0.1, -0.2])), "shockTimeLength": draw(st.integers(1, 3))}
            evs.append("EF")
        elif k == "mistake":
            cfg["EM"] = {"class": "OrderMistakeShock", "target": draw(st.sampled_from(names)), "triggerTime": draw(st.integers(0, 5)),
                         "priceChangeRate": draw(st.sampled_from([0.05, -0.05])), "orderVolume": draw(st.integers(1, 50)), "orderTimeLength": draw(st.integers(1, 5))}
            evs.append("EM")
        elif k == "limit":
            cfg["EL"] = {"class": "PriceLimitRule", "targetMarkets": draw(st.lists(st.sampled_from(names), min_size=1, max_size=len(names), unique=True)),
                         "triggerChangeRate": draw(st.sampled_from([0.02, 0.1]))}
            evs.append("EL")
        else:
            cfg["EH"] = {"class": "TradingHaltRule", "targetMarkets": [draw(st.sampled_from(names))], "triggerChangeRate": draw(st.sampled_from([0.01, 0.03])),
                         "haltingTimeLength": draw(st.integers(0, 4))}
            evs.append("EH")
    if evs:
        s = draw(st.integers(0, len(cfg["simulation"]["sessions"]) - 1))
        cfg["simulation"]["sessions"][s].setdefault("events", []).extend(evs)
    return case


def ask_fresh_workers(plans):
    """plans: [(hash_seed, [case, ...])]; one FRESH interpreter per plan (in parallel); returns the digest records per plan."""
    procs = []
    for n_plan, (hs, runs) in enumerate(plans):
        env = dict(os.environ, PYTHONHASHSEED=str(hs), C07_SALT=str(hs), VERIF_REEXEC="1", OPENBLAS_NUM_THREADS="1", OMP_NUM_THREADS="1")
        env.pop("PYTHONOPTIMIZE", None)
        if n_plan == len(plans) - 1 and n_plan >= 2:
            env["PYTHONOPTIMIZE"] = "1"  # the last plain-A worker runs under python -O (assert statements stripped)
        p = subprocess.Popen([sys.executable, os.path.join(VERIF_DIR, "pbt", "c07_worker.py")], stdin=subprocess.PIPE, stdout=subprocess.PIPE,
                             stderr=subprocess.PIPE, env=env, text=True)
        procs.append((p, json.dumps({"runs": runs})))
    out = []
    for p, doc in procs:
        o, e = p.communicate(doc, timeout=900)
        lines = [x for x in o.splitlines() if x.strip().startswith("[")]
        if not lines:
            raise RuntimeError(f"C07 worker produced no answer: {e[-800:]}")
        ans = json.loads(lines[-1])
        for a in ans:
            if "error" in a:
                raise RuntimeError(f"C07 worker error: {a['error']}")
        out.append(ans)
    return out


_UNRELATED = {"config": {"simulation": {"markets": ["M0"], "agents": ["B0"],
                                        "sessions": [{"sessionName": 0, "iterationSteps": 5, "withOrderPlacement": True, "withOrderExecution": True,
                                                      "withPrint": False, "maxNormalOrders": 2}]},
                         "M0": {"class": "Market", "tickSize": 1.0, "marketPrice": 100.0, "fundamentalVolatility": 0.02},
                         "B0": crossing_pair(["M0"])}, "seed": 99}


def hash_seeds_for(case, n):
    base = case["A"]["seed"] % 997
    return [1 + (base * 7 + j * 131) % 4000 for j in range(n)]


def reordered(x):
    """the same JSON value with the members of every object listed in reverse order (arrays keep their order)."""
    if isinstance(x, dict):
        return {k: reordered(v) for k, v in reversed(list(x.items()))}
    if isinstance(x, list):
        return [reordered(v) for v in x]
    return x


def make_check(n_workers):
    def check_case(case):
        A, B = case["A"], case.get("B") or _UNRELATED
        other = dict(A, seed=(A["seed"] + 1) % (2**31))
        hs = hash_seeds_for(case, n_workers)
        A_rev = dict(A, config=reordered(A["config"]))
        # every comparison is between FRESH interpreters, so a failure is a function of the case alone:
        #   worker 0 (hash seed 0):        A, then A again, then A with another seed
        #   worker 1 (hash seed h1):       B (a different, possibly id-sharing configuration) first, then A
        #   workers 2.. (hash seeds h2..): A
        #   (worker 1 also runs A once more with the members of every settings object in reverse order: a JSON object is an
        #    unordered collection, so that is the same configuration)
        plans = [(0, [A, A, other]), (hs[0], [B, A, A_rev])] + [(h, [A]) for h in hs[1:]]
        ans = ask_fresh_workers(plans)
        ref = ans[0][0]
        if "crash" in ref:
            raise PamsCrashProxy(ref)
        if not ref["settings_unchanged"]:
            raise Violation("C07.settings_modified", "the settings dict handed to the runner differs after the run")
        if ans[0][1]["digest"] != ref["digest"]:
            raise Violation("C07.same_process_rerun", "two runs of the same (configuration, seed) in one fresh process differ (the second after 1000 draws from the "
                                                      "global generators)")
        if ans[1][1]["digest"] != ref["digest"]:
            raise Violation("C07.earlier_run_or_hash_seed", f"the run differs in a fresh process (PYTHONHASHSEED={hs[0]}) in which another configuration was run first")
        if ans[1][2]["digest"] != ref["digest"]:
            raise Violation("C07.member_order_of_settings", "the run differs when the members of the settings objects are listed in another order (same names, same values)")
        for h, a in zip(hs[1:], ans[2:]):
            if a[0]["digest"] != ref["digest"]:
                raise Violation("C07.hash_seed_or_global_state", f"the run differs in a fresh process started with PYTHONHASHSEED={h} and differently seeded global generators"
                                                                 + (" under python -O (PYTHONOPTIMIZE=1)" if h == hs[-1] else ""))
        changed = ans[0][2]["digest"] != ref["digest"]
        nt = len(ref["classes"]) >= 4 and ref["n_logs"] >= 50 and any(c for c in ref["classes"] if "Shock" in c or "Rule" in c or "Probe" in c)
        return CaseInfo(nontrivial=nt, classes=(["seed_changes_outcome"] if changed else ["seed_irrelevant"]) + [f"hash_seeds_{1 + len(hs)}"] + ref["classes"]
                        + (["related_B"] if case.get("related") else []) + (["sample_" + A["sample"]] if "sample" in A else []),
                        steps=ref["records"], sample={"case": summarize(A), "digest": ref["digest"], "records": ref["records"], "classes": ref["classes"],
                                                     "hash_seeds": [0] + hs})

    return check_case


class PamsCrashProxy(PamsCrash):
    """a pams crash that happened inside a worker process."""

    def __init__(self, rec):
        Exception.__init__(self, rec["digest"])
        f, t = rec["crash"].rsplit(":", 1)
        self._file, self.exc_type, self.exc_msg, self.tb_text = f, t, rec["digest"], rec.get("tb", "")
        self.frames, self.pams_frames, self.innermost_is_pams, self.where = [], [], True, "worker"

    def innermost_pams_file(self):
        return self._file


@st.composite
def pair_cases(draw, tier):
    # one case in four is one of the repository's own sample configurations (scaled down), the others are generated
    A = draw(st.one_of(cases(tier), cases(tier), cases(tier), sample_cases()))
    kind = draw(st.sampled_from(["independent", "related", "related", "none"]))
    if kind != "related" and any(isinstance(v, dict) and "MarketShare" in str(v.get("class")) for v in A["config"].values()) and draw(st.integers(0, 3)) > 0:
        # agents that read executed volumes of several markets: state keyed by (market id, time) left behind by an earlier run shows
        # only when that run shared the ids, so three of four such cases get a related earlier run
        kind = "related"
    if kind == "none":
        return {"A": A, "B": None, "related": False}
    if kind == "independent":
        return {"A": A, "B": draw(cases(tier)), "related": False}
    # a related earlier run: same market / agent ids but other volatilities, correlations, seed
    B = copy.deepcopy(A)
    cfg = B["config"]
    for m in cfg["simulation"]["markets"]:
        if m != "IDX":
            cfg[m]["fundamentalVolatility"] = draw(st.sampled_from([0.002, 0.02, 0.08]))
            cfg[m]["marketPrice"] = draw(st.sampled_from([100.0, 300.0, 50.5, 1000.0]))
    vol = [m for m in cfg["simulation"]["markets"] if m != "IDX"]
    if len(vol) >= 2:
        if draw(st.booleans()):
            cfg["simulation"]["fundamentalCorrelations"] = {"pairwise": [[vol[0], vol[1], draw(st.sampled_from([-0.7, 0.6, 0.9]))]]}
        else:
            cfg["simulation"].pop("fundamentalCorrelations", None)
    B["seed"] = draw(st.integers(0, 2**31 - 1))
    if draw(st.booleans()):
        # the same seed too: every agent draws the same parameters as in A, only the markets differ -- whatever an earlier run leaves
        # behind under (ids, parameters) is then found again by A
        B["seed"] = A["seed"]
    return {"A": A, "B": B, "related": True}


def sim_check_quick(case):
    return make_check(N_WORKERS["quick"])(case)


def sim_check_thorough(case):
    return make_check(N_WORKERS["thorough"])(case)


def shard(shard, n_shards, tier, seed, budget):
    rec = Recorder(ID, make_check(N_WORKERS[tier]))
    rec.shrink_budget_s = 60.0 if tier == "quick" else 200.0
    run_hypothesis(rec, pair_cases(tier), max_examples=budget, seed=derive_seed(ID, "sim", seed, shard))
    res = rec.res
    if rec.last_failure is not None:
        res["violation"] = rec.last_failure
    return res


def replay(case):
    return make_check(N_WORKERS["thorough"])(case)


PARTS = {"sim": {"shard": shard, "replay": replay, "budget": {"quick": 96, "thorough": 1600}}}


def vacuity(merged, tier):
    m = merged["sim"]
    n = max(1, m["evaluations"])
    if m["classes"].get("seed_changes_outcome", 0.0) / n < 0.8:
        return "a different seed changes the digest in fewer than 80% of the cases (digest may be vacuous)"
    for cls in ("FCNAgent", "VTracedMarketMakerAgent", "TradingHaltRule", "PriceLimitRule", "OrderMistakeShock", "FundamentalPriceShock"):
        if m["classes"].get(cls, 0) == 0:
            return f"class {cls} never occurred"
    return None
