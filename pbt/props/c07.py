"""C07 -- reproducibility: configuration and seed determine the whole run."""
import copy
import json
import os
import random
import subprocess
import sys

import numpy as np
from hypothesis import strategies as st

from ..common import (CaseInfo, PamsCrash, Recorder, VERIF_DIR, Violation, _new_result, derive_seed, run_hypothesis)
from ..digest import digest_case
from ..strategies import crossing_pair, sim_cases
from ._sim_common import summarize

ID = "C07"
RULE = ("Hypothesis generates configurations that mix scripted agents with (traced and plain) built-in FCN, market-share FCN, "
        "market-maker, arbitrage and test agents, Market and IndexMarket, correlated volatile fundamentals, and the built-in "
        "events (fundamental shock, order mistake, price limit, trading halt) plus probe events, 1-3 sessions of 1-40 steps "
        "(120 thorough), and a runner seed. The digest (SHA-256 over every logger record, every agent consultation and "
        "callback, every hook invocation, all market series, final books and holdings, serialised by field values) of the run "
        "must be identical (a) for two runs in one process, the second after 1000 draws from random / numpy.random and an "
        "unrelated simulation, and (b) in 2 (quick) / 4 (thorough) persistent worker processes per shard started with "
        "different PYTHONHASHSEED values (3 / 5 distinct hash seeds per case, 17 / 65 over a run) and differently seeded global "
        "generators; the settings dict must be deep-equal before and after; a different seed must change the digest. "
        "Non-trivial = configuration with >=3 agent classes and >=1 event whose run has >=50 log records.")
ASSUMPTIONS = ["hash-seed dependence that needs a specific collision pattern may need more hash seeds than were used (stated above)"]

N_WORKERS = {"quick": 2, "thorough": 4}


@st.composite
def cases(draw, tier):
    big = tier == "thorough"
    case = draw(sim_cases(n_markets=(2, 3), index_prob=1, vol_zero=False, builtin=True, correlations=True, n_sessions=(1, 3),
                          steps=(1, 40) if big else (1, 14), agents_per_group=(1, 3), placement=True, probes=True, caps=(1, 5)))
    cfg = case["config"]
    names = [m for m in cfg["simulation"]["markets"] if m != "IDX"]
    allm = list(cfg["simulation"]["markets"])
    # plain (untraced) built-in classes as well
    if draw(st.booleans()):
        cfg["PF"] = {"class": "FCNAgent", "numAgents": draw(st.integers(1, 5)), "markets": allm, "assetVolume": 50, "cashAmount": 10000,
                     "fundamentalWeight": {"expon": [1.0]}, "chartWeight": {"expon": [0.1]}, "noiseWeight": {"expon": [1.0]}, "noiseScale": 0.001,
                     "timeWindowSize": [5, 20], "orderMargin": [0.0, 0.1], "marginType": draw(st.sampled_from(["fixed", "normal"]))}
        cfg["simulation"]["agents"].append("PF")
    if draw(st.booleans()):
        cfg["PT"] = {"class": "TestAgent", "numAgents": draw(st.integers(1, 3)), "markets": allm, "assetVolume": 50, "cashAmount": 10000}
        cfg["simulation"]["agents"].append("PT")
    cfg["B0"] = crossing_pair(names)
    cfg["simulation"]["agents"].append("B0")
    evs = []
    kinds = draw(st.lists(st.sampled_from(["fshock", "mistake", "limit", "halt"]), max_size=3, unique=True))
    for k in kinds:
        if k == "fshock":
            cfg["EF"] = {"class": "FundamentalPriceShock", "target": draw(st.sampled_from(names)), "triggerTime": draw(st.integers(0, 5)),
                         "priceChangeRate": draw(st.sampled_from([0.1, -0.2])), "shockTimeLength": draw(st.integers(1, 3))}
            evs.append("EF")
        elif k == "mistake":
            cfg["EM"] = {"class": "OrderMistakeShock", "target": draw(st.sampled_from(names)), "triggerTime": draw(st.integers(0, 5)),
                         "priceChangeRate": draw(st.sampled_from([0.05, -0.05])), "orderVolume": draw(st.integers(1, 50)), "orderTimeLength": draw(st.integers(1, 5))}
            evs.append("EM")
        elif k == "limit":
            cfg["EL"] = {"class": "PriceLimitRule", "targetMarkets": draw(st.lists(st.sampled_from(names), min_size=1, max_size=len(names), unique=True)),
                         "triggerChangeRate": draw(st.sampled_from([0.02, 0.1]))}
            evs.append("EL")
        else:
            cfg["EH"] = {"class": "TradingHaltRule", "targetMarkets": [draw(st.sampled_from(names))], "triggerChangeRate": draw(st.sampled_from([0.01, 0.03])),
                         "haltingTimeLength": draw(st.integers(0, 4))}
            evs.append("EH")
    if evs:
        s = draw(st.integers(0, len(cfg["simulation"]["sessions"]) - 1))
        cfg["simulation"]["sessions"][s].setdefault("events", []).extend(evs)
    return case


class Workers:
    def __init__(self, shard: int, n: int):
        self.procs = []
        self.hash_seeds = []
        for j in range(n):
            hs = 1 + shard * n + j
            env = dict(os.environ, PYTHONHASHSEED=str(hs), C07_SALT=str(hs), VERIF_REEXEC="1")
            p = subprocess.Popen([sys.executable, os.path.join(VERIF_DIR, "pbt", "c07_worker.py")], stdin=subprocess.PIPE, stdout=subprocess.PIPE,
                                 env=env, text=True, bufsize=1)
            self.procs.append(p)
            self.hash_seeds.append(hs)

    def ask(self, case):
        line = json.dumps(case) + "\n"
        for p in self.procs:
            p.stdin.write(line)
            p.stdin.flush()
        out = []
        for p in self.procs:
            ans = p.stdout.readline()
            if not ans:
                raise RuntimeError("C07 worker died")
            out.append(json.loads(ans))
        return out

    def close(self):
        for p in self.procs:
            try:
                p.stdin.close()
                p.wait(timeout=10)
            except Exception:  # noqa: BLE001
                p.kill()


_UNRELATED = {"config": {"simulation": {"markets": ["M0"], "agents": ["B0"],
                                        "sessions": [{"sessionName": 0, "iterationSteps": 5, "withOrderPlacement": True, "withOrderExecution": True,
                                                      "withPrint": False, "maxNormalOrders": 2}]},
                         "M0": {"class": "Market", "tickSize": 1.0, "marketPrice": 100.0, "fundamentalVolatility": 0.02},
                         "B0": crossing_pair(["M0"])}, "seed": 99}


def make_check(workers):
    def check_case(case):
        d1 = digest_case(case)
        if not d1["settings_unchanged"]:
            raise Violation("C07.settings_modified", "the settings dict handed to the runner differs after the run")
        rnd = random.Random(case["seed"] ^ 0xC07)
        random.seed(rnd.random())
        np.random.seed(rnd.randrange(2**32))
        for _ in range(1000):
            random.random()
            np.random.random()
        digest_case(_UNRELATED)
        d2 = digest_case(copy.deepcopy(case))
        if d1["digest"] != d2["digest"]:
            raise Violation("C07.same_process_rerun", "two runs of the same (configuration, seed) in one process differ (second run after draws from the global "
                                                      "generators and an unrelated simulation)")
        n_hash = 1
        if workers is not None:
            for hs, ans in zip(workers.hash_seeds, workers.ask(case)):
                if "error" in ans:
                    raise RuntimeError(f"worker error: {ans['error']}")
                n_hash += 1
                if ans["digest"] != d1["digest"]:
                    raise Violation("C07.hash_seed_or_global_state", f"the run differs in a process started with PYTHONHASHSEED={hs} and differently seeded global generators")
        other = dict(case, seed=(case["seed"] + 1) % (2**31))
        changed = digest_case(other)["digest"] != d1["digest"]
        nt = len(d1["classes"]) >= 4 and d1["n_logs"] >= 50 and any(c for c in d1["classes"] if "Shock" in c or "Rule" in c or "Probe" in c)
        return CaseInfo(nontrivial=nt, classes=(["seed_changes_outcome"] if changed else ["seed_irrelevant"]) + [f"hash_seeds_{n_hash}"] + d1["classes"],
                        steps=d1["records"], sample={"case": summarize(case), "digest": d1["digest"], "records": d1["records"], "classes": d1["classes"]})

    return check_case


def shard(shard, n_shards, tier, seed, budget):
    workers = Workers(shard, N_WORKERS[tier])
    try:
        rec = Recorder(ID, make_check(workers))
        rec.shrink_budget_s = 60.0 if tier == "quick" else 200.0
        run_hypothesis(rec, cases(tier), max_examples=budget, seed=derive_seed(ID, "sim", seed, shard))
        res = rec.res
        res["extra"]["hash_seeds_used"] = [0] + workers.hash_seeds
        if rec.last_failure is not None:
            res["violation"] = rec.last_failure
        return res
    finally:
        workers.close()


_replay_workers = None


def replay(case):
    w = Workers(0, 2)
    try:
        return make_check(w)(case)
    finally:
        w.close()


PARTS = {"sim": {"shard": shard, "replay": replay, "budget": {"quick": 160, "thorough": 1600}, "n_shards": 8}}


def vacuity(merged, tier):
    m = merged["sim"]
    n = max(1, m["evaluations"])
    if m["classes"].get("seed_changes_outcome", 0) / n < 0.8:
        return "a different seed changes the digest in fewer than 80% of the cases (digest may be vacuous)"
    for cls in ("FCNAgent", "VTracedMarketMakerAgent", "TradingHaltRule", "PriceLimitRule", "OrderMistakeShock", "FundamentalPriceShock"):
        if m["classes"].get(cls, 0) == 0:
            return f"class {cls} never occurred"
    return None
