"""C05 -- cash and shares are conserved; holdings equal endowment plus own fills."""
from hypothesis import strategies as st

from ..common import CaseInfo
from ..oracles import Analysis, check_c05
from ..simharness import run_case
from ..strategies import sample_cases, sim_cases
from ._sim_common import frac, summarize

ID = "C05"
RULE = ("Hypothesis generates whole configurations (1-3 markets, optional index market, 1-2 groups of scripted agents with "
        "generated order programs incl. self-crossing and market orders, optional scripted HFT agents and traced built-in "
        "agents, 1-3 sessions with generated flags/caps, in half of the runs a TradingHaltRule on some markets) and a runner seed; the real SequentialRunner runs them. The "
        "endowment captured after setup is folded (Fraction arithmetic) with the distinct ExecutionLogs in trace order and "
        "compared with EVERY agent's cash/shares at every step-begin/step-end record and inside every executed_order "
        "callback, plus totals per market. Non-trivial = run with >=1 multi-fill round and >=1 self-trade, or >=3 trading "
        "agents on >=2 markets; distinct by hash of (config, seed). (lean) the repository's sample configurations with the shipped, untraced agent classes, all sessions executing, and a logger that folds every fill into a ledger of plain numbers and drops the record: holdings = endowment + ledger at every session end (the recording harness keeps all records alive, which can hide defects that depend on records being released).")
ASSUMPTIONS = ["cash compared with rel 1e-9 / abs 1e-6 against an exact rational fold; shares exactly",
               "agents only submit to markets they can access (configuration precondition of pams)"]


def check_case(case):
    res = run_case(case)
    st = check_c05(Analysis(case, res))
    nt = (st["multi_fill_rounds"] >= 1 and st["self_trades"] >= 1) or (st["traders"] >= 3 and st["markets_traded"] >= 2)
    classes = [k for k in ("fills", "self_trades", "multi_fill_rounds") if st[k]]
    return CaseInfo(nontrivial=nt, classes=classes, steps=st["observations"], sample={"case": summarize(case), "stats": st})


def _strategy(tier):
    big = tier == "thorough"
    return sim_cases(builtin=True, steps=(1, 20) if big else (1, 8), agents_per_group=(1, 5), n_markets=(1, 4) if big else (1, 3), rules=True)


PARTS = {"sim": {"check": check_case, "strategy": _strategy, "budget": {"quick": 3000, "thorough": 40000}}}


def samples_check(case):
    """the repository's own sample configurations (scaled down, with recording agent classes)"""
    res = run_case(case)
    st = check_c05(Analysis(case, res))
    return CaseInfo(nontrivial=st["fills"] > 0, classes=["sample_" + case["sample"]] + (["fills"] if st["fills"] else []), steps=st.get("orders", st.get("observations", 0)),
                    sample={"sample": case["sample"], "seed": case["seed"], "sessions": [s["iterationSteps"] for s in case["config"]["simulation"]["sessions"]], "stats": st})


PARTS["samples"] = {"check": samples_check, "strategy": lambda tier: sample_cases(), "budget": {"quick": 64, "thorough": 1600}}


# -- a run nobody watches closely: plain agents, a logger that keeps numbers and drops the records ------------------------------


@st.composite
def _lean_cases(draw, tier):
    case = draw(sample_cases(traced=False, probe=False))
    ses = case["config"]["simulation"]["sessions"]
    # every session executes (the samples open with a placement-only session), and there is a third one
    for s_ in ses:
        s_["withOrderExecution"] = True
    if draw(st.booleans()):
        ses.append(dict(ses[-1], sessionName=len(ses), iterationSteps=draw(st.integers(10, 40)), events=[]))
    return case


def _lean_check(case):
    """The recording harness keeps every record alive, which can hide defects that depend on records being released.  Here the
    shipped agent classes run untraced, the logger folds each fill into a ledger of plain numbers at delivery and forgets
    the record; at every session end (and at the end) every agent's holdings must equal endowment + ledger."""
    import copy
    import random
    from fractions import Fraction

    from pams.logs.base import Logger
    from pams.runners.sequential import SequentialRunner

    from ..common import Violation, classify_exception

    class Ledger(Logger):
        def __init__(self):
            super().__init__()
            self.cash, self.shares, self.n, self.sim, self.problems, self.peak = {}, {}, 0, None, [], {}

        def process_execution_log(self, log):
            amount = Fraction(log.price) * log.volume
            self.cash[log.buy_agent_id] = self.cash.get(log.buy_agent_id, 0) - amount
            self.cash[log.sell_agent_id] = self.cash.get(log.sell_agent_id, 0) + amount
            for a_ in (log.buy_agent_id, log.sell_agent_id):
                self.peak[a_] = max(self.peak.get(a_, 1.0), abs(float(amount)), abs(float(self.init[a_][0] + self.cash[a_])))
            for a, sgn in ((log.buy_agent_id, 1), (log.sell_agent_id, -1)):
                self.shares[(a, log.market_id)] = self.shares.get((a, log.market_id), 0) + sgn * log.volume
            self.n += 1

        def process_session_end_log(self, log):
            self.audit(f"end of session {log.session.session_id}")

        def audit(self, where):
            for a in self.sim.agents:
                want_c = self.init[a.agent_id][0] + self.cash.get(a.agent_id, 0)
                if abs(float(Fraction(a.cash_amount) - want_c)) > 1e-6 + 1e-9 * max(self.peak.get(a.agent_id, 1.0), abs(float(want_c))):
                    self.problems.append(f"{where}: agent {a.agent_id} has cash {a.cash_amount!r}, endowment + delivered fills = {float(want_c)!r} ({self.n} fills so far)")
                for mid, v in a.asset_volumes.items():
                    want_s = self.init[a.agent_id][1][mid] + self.shares.get((a.agent_id, mid), 0)
                    if v != want_s:
                        self.problems.append(f"{where}: agent {a.agent_id} holds {v} of market {mid}, endowment + delivered fills = {want_s} ({self.n} fills so far)")

    lg = Ledger()
    r = SequentialRunner(settings=copy.deepcopy(case["config"]), prng=random.Random(case["seed"]), logger=lg)
    try:
        r._setup()
        lg.sim = r.simulator
        lg.init = {a.agent_id: (Fraction(a.cash_amount), dict(a.asset_volumes)) for a in r.simulator.agents}
        r._run()
    except Exception as e:  # noqa: BLE001
        crash = classify_exception(e)
        if crash is None:
            raise
        raise crash
    lg.audit("end of run")
    if lg.problems:
        raise Violation("C05.holdings_equal_endowment_plus_fills", lg.problems[0] + (f" (+{len(lg.problems) - 1} more)" if len(lg.problems) > 1 else ""))
    return CaseInfo(nontrivial=lg.n >= 20, classes=["lean_" + case["sample"]] + (["fills"] if lg.n else []), steps=lg.n,
                    sample={"sample": case["sample"], "seed": case["seed"], "fills": lg.n, "sessions": [s_["iterationSteps"] for s_ in case["config"]["simulation"]["sessions"]]})


PARTS["lean"] = {"check": _lean_check, "strategy": _lean_cases, "budget": {"quick": 320, "thorough": 4800}}


def vacuity(merged, tier):
    for cls, lim in (("fills", 0.16), ("self_trades", 0.04), ("multi_fill_rounds", 0.06)):
        if frac(merged, "sim", cls) < lim:
            return f"class {cls} below {lim:.0%} of runs"
    return None
