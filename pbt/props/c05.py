"""C05 -- cash and shares are conserved; holdings equal endowment plus own fills."""
from ..common import CaseInfo
from ..oracles import Analysis, check_c05
from ..simharness import run_case
from ..strategies import sample_cases, sim_cases
from ._sim_common import frac, summarize

ID = "C05"
RULE = ("Hypothesis generates whole configurations (1-3 markets, optional index market, 1-2 groups of scripted agents with "
        "generated order programs incl. self-crossing and market orders, optional scripted HFT agents and traced built-in "
        "agents, 1-3 sessions with generated flags/caps, in half of the runs a TradingHaltRule on some markets) and a runner seed; the real SequentialRunner runs them. The "
        "endowment captured after setup is folded (Fraction arithmetic) with the distinct ExecutionLogs in trace order and "
        "compared with EVERY agent's cash/shares at every step-begin/step-end record and inside every executed_order "
        "callback, plus totals per market. Non-trivial = run with >=1 multi-fill round and >=1 self-trade, or >=3 trading "
        "agents on >=2 markets; distinct by hash of (config, seed).")
ASSUMPTIONS = ["cash compared with rel 1e-9 / abs 1e-6 against an exact rational fold; shares exactly",
               "agents only submit to markets they can access (configuration precondition of pams)"]


def check_case(case):
    res = run_case(case)
    st = check_c05(Analysis(case, res))
    nt = (st["multi_fill_rounds"] >= 1 and st["self_trades"] >= 1) or (st["traders"] >= 3 and st["markets_traded"] >= 2)
    classes = [k for k in ("fills", "self_trades", "multi_fill_rounds") if st[k]]
    return CaseInfo(nontrivial=nt, classes=classes, steps=st["observations"], sample={"case": summarize(case), "stats": st})


def _strategy(tier):
    big = tier == "thorough"
    return sim_cases(builtin=True, steps=(1, 20) if big else (1, 8), agents_per_group=(1, 5), n_markets=(1, 4) if big else (1, 3), rules=True)


PARTS = {"sim": {"check": check_case, "strategy": _strategy, "budget": {"quick": 3000, "thorough": 40000}}}


def samples_check(case):
    """the repository's own sample configurations (scaled down, with recording agent classes)"""
    res = run_case(case)
    st = check_c05(Analysis(case, res))
    return CaseInfo(nontrivial=st["fills"] > 0, classes=["sample_" + case["sample"]] + (["fills"] if st["fills"] else []), steps=st.get("orders", st.get("observations", 0)),
                    sample={"sample": case["sample"], "seed": case["seed"], "sessions": [s["iterationSteps"] for s in case["config"]["simulation"]["sessions"]], "stats": st})


PARTS["samples"] = {"check": samples_check, "strategy": lambda tier: sample_cases(), "budget": {"quick": 64, "thorough": 1600}}


def vacuity(merged, tier):
    for cls, lim in (("fills", 0.16), ("self_trades", 0.04), ("multi_fill_rounds", 0.06)):
        if frac(merged, "sim", cls) < lim:
            return f"class {cls} below {lim:.0%} of runs"
    return None
