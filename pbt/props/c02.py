"""C02 -- fills follow price-time priority; order comparison is a strict total order."""
import itertools
import warnings

from hypothesis import strategies as st

from ..common import CaseInfo, Recorder, Violation, case_hash, derive_seed, run_hypothesis
from ..market_machine import market_cases, run_market_case
from ._market_common import frac, fuzz_part, make_check

warnings.simplefilter("ignore")
from pams.order import LIMIT_ORDER, MARKET_ORDER, Order  # noqa: E402

ID = "C02"
RULE = ("(machine histories also contain pending orders rewritten before acceptance -- constructed as a market order, accepted as a limit order and vice versa -- and, one in three, a book that crosses while the market is closed and is carried over 1-2 clock steps) (machine) histories as for C01 biased to few price levels, equal times, partial fills and removals from the "
        "middle of the heap; per round no filled order may be preceded (key: market first, better price, earlier "
        "acceptance, lower id -- written in the harness) by an order with unfilled volume, and after EVERY op the book's "
        "best order equals the ranking's top; non-trivial = a round in which >=3 orders compete on one side with a tie "
        "in price. (finite) all ordered pairs and id-distinct triples over kind x price{99,100,101} x placed_at{0,1,2} x "
        "id{0..3} per side, exhaustive: trichotomy, asymmetry, transitivity, agreement with the key, <=/>=/==/!= "
        "consistency; every pair/triple is non-trivial and distinct. (floats) Hypothesis triples with arbitrary positive "
        "float prices plus 0.0 / -0.0 / -1.0 (accepted by pams with a warning). (permute) the same multiset of orders submitted in two arrival orders and cleared by one round: "
        "filled volume per side and price level must agree.")
ASSUMPTIONS = ["thorough tier adds a coverage-guided atheris campaign over byte-decoded histories (16 processes, half from an empty corpus); its saved decoded case, not the campaign, is the reproducible unit",
               "two accepted orders of one book never share an order id, so pairs with equal ids and different attributes are outside the domain"]


def _nt(f):
    return bool(f.get("round_competing_tie"))


def _strategy(tier):
    return market_cases(max_ops=60 if tier == "quick" else 300, market_frac=2, few_levels=True)


# -- order algebra ------------------------------------------------------------------------------------------------


def key(o):
    if o.kind == MARKET_ORDER:
        return (0, 0, o.placed_at, o.order_id)
    return (1, -o.price if o.is_buy else o.price, o.placed_at, o.order_id)


def mk(side, is_market, price, t, i):
    return Order(agent_id=0, market_id=0, is_buy=side, kind=MARKET_ORDER if is_market else LIMIT_ORDER, volume=1,
                 placed_at=t, price=None if is_market else price, order_id=i)


def pair_laws(a, b):
    """None or a message; a, b accepted orders of one side with different ids, or the same order."""
    ka, kb = key(a), key(b)
    if ka == kb:
        if not (a == b) or (a < b) or (a > b) or not (a <= b) or not (a >= b) or (a != b):
            return "an order does not compare equal to itself"
        return None
    lt, gt, ltr, gtr = a < b, a > b, b < a, b > a
    if lt == ltr:
        return f"trichotomy/asymmetry: a<b={lt}, b<a={ltr}"
    if lt != gtr or gt != ltr:
        return f"a<b ({lt}) disagrees with b>a ({gtr})"
    if lt != (ka < kb):
        return f"a<b is {lt} but the priority ranking says {ka < kb}"
    if a == b or not (a != b):
        return "distinct orders compare equal"
    if (a <= b) != lt or (a >= b) != gt:
        return "<= / >= inconsistent with < / >"
    return None


def describe(o):
    return ["B" if o.is_buy else "S", "M" if o.kind == MARKET_ORDER else "L", o.price, o.placed_at, o.order_id]


def finite_domain(side):
    dom = []
    for is_market in (True, False):
        for p in ((None,) if is_market else (99.0, 100.0, 101.0)):
            for t in (0, 1, 2):
                for i in range(4):
                    dom.append(mk(side, is_market, p, t, i))
    return dom


def finite_shard(shard, n_shards, tier, seed, budget):
    from ..common import _new_result

    res = _new_result()
    n = 0
    for side in (True, False):
        dom = finite_domain(side)
        for ia, a in enumerate(dom):
            if ia % n_shards != shard:
                continue
            for b in dom:
                if a.order_id == b.order_id and key(a) != key(b):
                    continue
                n += 1
                msg = pair_laws(a, b)
                if msg:
                    res["violation"] = {"case": {"orders": [describe(a), describe(b)]}, "oracle": "C02.order_algebra_pair",
                                        "message": msg, "detail": None}
                    return res
                if a.order_id == b.order_id:
                    continue
                ab = a < b
                for c in dom:
                    if c.order_id in (a.order_id, b.order_id):
                        continue
                    n += 1
                    if ab and (b < c) and not (a < c):
                        res["violation"] = {"case": {"orders": [describe(a), describe(b), describe(c)]},
                                            "oracle": "C02.order_algebra_transitivity",
                                            "message": "a<b and b<c but not a<c", "detail": None}
                        return res
    res["evaluations"] = n
    res["nontrivial_hashes"] = set(range(shard * 10**7, shard * 10**7 + n))  # every enumerated tuple is distinct
    if shard == 0:
        d = finite_domain(True)
        res["samples"] = [{"orders": [describe(d[0]), describe(d[20]), describe(d[47])]}]
    res["classes"] = {"pairs_and_triples": n}
    return res


def finite_replay(case):
    os_ = [mk(o[0] == "B", o[1] == "M", o[2], o[3], o[4]) for o in case["orders"]]
    for a, b in itertools.permutations(os_, 2):
        msg = pair_laws(a, b)
        if msg:
            raise Violation("C02.order_algebra_pair", msg)
    if len(os_) == 3:
        for a, b, c in itertools.permutations(os_, 3):
            if a < b and b < c and not a < c:
                raise Violation("C02.order_algebra_transitivity", "a<b and b<c but not a<c")
    return CaseInfo(nontrivial=True)


# zero and negative limit prices are accepted by pams (with a warning): the operators must rank them like any other price
PRICES = st.one_of(st.sampled_from([99.0, 100.0, 100.00000000000001, 5e-324, 1e308, 0.1, 0.30000000000000004, 0.0, -1.0, -0.0]),
                   st.floats(min_value=0.0, allow_nan=False, allow_infinity=False, exclude_min=True))


@st.composite
def float_triples(draw):
    side = draw(st.booleans())
    ids = draw(st.permutations([0, 1, 2]))
    out = []
    for i in ids:
        out.append(["B" if side else "S", "M" if draw(st.integers(0, 3)) == 0 else "L", draw(PRICES), draw(st.integers(0, 2)), i])
    for o in out:
        if o[1] == "M":
            o[2] = None
    return {"orders": out}


def floats_check(case):
    finite_replay(case)
    prices = [o[2] for o in case["orders"] if o[2] is not None]
    return CaseInfo(nontrivial=len(prices) >= 2, classes=["tie"] if len(set(prices)) < len(prices) else [],
                    sample=case)


# -- arrival-order metamorphic relation ------------------------------------------------------------------------------


@st.composite
def permute_cases(draw):
    tick = draw(st.sampled_from([1.0, 0.5, 0.1]))
    base = 100.0
    n = draw(st.integers(3, 10))
    orders = []
    for _ in range(n):
        is_market = draw(st.integers(0, 7)) == 0
        orders.append([draw(st.booleans()), None if is_market else base + draw(st.integers(-2, 2)) * tick,
                       draw(st.integers(1, 6)), draw(st.integers(0, 2))])
    perm = draw(st.permutations(list(range(n))))
    return {"tick": tick, "orders": orders, "perm": list(perm)}


def _clear(tick, orders):
    ops = []
    for is_buy, price, vol, agent in orders:
        ops.append(["M", is_buy, vol, None, agent] if price is None else ["L", is_buy, price, vol, None, agent])
    ops += [["R", True], ["X"]]
    run = run_market_case({"tick": tick, "p0": 100.0, "continuous": False, "running0": False, "ops": ops}, {"C02"})
    per_level = {}
    for mo in run.M.orders.values():
        k = (mo.is_buy, mo.price)
        per_level[k] = per_level.get(k, 0) + mo.filled
    # within a level, fills must go in arrival order
    for (is_buy, price) in per_level:
        group = sorted((mo for mo in run.M.orders.values() if (mo.is_buy, mo.price) == (is_buy, price)), key=lambda m: m.oid)
        blocked = False
        for mo in group:
            if blocked and mo.filled > 0:
                raise Violation("C02.arrival_order_within_level", f"order #{mo.oid} filled before an earlier arrival at the same price")
            if mo.vol > 0:
                blocked = True
    return per_level, run


def permute_check(case):
    a, ra = _clear(case["tick"], case["orders"])
    b, rb = _clear(case["tick"], [case["orders"][i] for i in case["perm"]])
    if a != b:
        raise Violation("C02.arrival_permutation", f"filled volume per (side, price level) depends on arrival order: {sorted(a.items(), key=str)} vs "
                                                  f"{sorted(b.items(), key=str)}")
    filled = sum(a.values())
    return CaseInfo(nontrivial=filled > 0 and case["perm"] != sorted(case["perm"]), classes=["filled"] if filled else [],
                    sample=case)


def _deep_strategy(tier):
    # deep, mostly uncrossed books with many cancels from the middle, swept by drain probes
    return market_cases(max_ops=60 if tier == "quick" else 300, market_frac=1, deep=True, toggles=False)


PARTS = {
    "machine": {"check": make_check({"C02"}, _nt), "strategy": _strategy, "budget": {"quick": 3000, "thorough": 60000}},
    "deep": {"check": make_check({"C02"}, _nt), "strategy": _deep_strategy, "budget": {"quick": 3000, "thorough": 60000}},
    "finite": {"shard": finite_shard, "replay": finite_replay, "budget": {"quick": 1, "thorough": 1}, "exhaustive": True},
    "floats": {"check": floats_check, "strategy": lambda tier: float_triples(), "budget": {"quick": 8000, "thorough": 400000}},
    "permute": {"check": permute_check, "strategy": lambda tier: permute_cases(), "budget": {"quick": 2000, "thorough": 40000}},
}

PARTS["fuzz"] = fuzz_part("C02", {"C02"}, _nt)


def vacuity(merged, tier):
    if frac(merged, "machine", "round_competing_tie") < 0.04:
        return "too few histories have a round with >=3 competing orders and a price tie"
    if merged["finite"]["evaluations"] < 86000:
        return "finite order domain was not enumerated completely"
    if frac(merged, "permute", "filled") < 0.12:
        return "too few permutation cases produce fills"
    return None
