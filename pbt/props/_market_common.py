"""shared plumbing of the kind-A (market machine) properties."""
from typing import Any, Callable, Dict, Set

from ..common import CaseInfo
from ..market_machine import market_cases, run_market_case


def make_check(oracles: Set[str], nontrivial: Callable[[Dict[str, int]], bool]):
    def check_case(case: Dict[str, Any]) -> CaseInfo:
        run = run_market_case(case, oracles)
        f = run.flags
        classes = [k for k in f if f[k]]
        if run.n_rounds:
            classes.append("has_round")
        return CaseInfo(nontrivial=nontrivial(f), classes=classes, steps=len(case["ops"]),
                        sample={"tick": case["tick"], "p0": case["p0"], "continuous": case["continuous"],
                                "ops": case["ops"][:25], "n_ops": len(case["ops"]), "flags": f})

    return check_case


def frac(merged, part, cls) -> float:
    m = merged[part]
    return m["classes"].get(cls, 0) / max(1, m["evaluations"])
