"""shared plumbing of the kind-A (market machine) properties."""
from typing import Any, Callable, Dict, Set

from ..common import CaseInfo
from ..market_machine import market_cases, run_market_case


def make_check(oracles: Set[str], nontrivial: Callable[[Dict[str, int]], bool]):
    def check_case(case: Dict[str, Any]) -> CaseInfo:
        run = run_market_case(case, oracles)
        f = run.flags
        classes = [k for k in f if f[k]]
        if run.n_rounds:
            classes.append("has_round")
        return CaseInfo(nontrivial=nontrivial(f), classes=classes, steps=len(case["ops"]),
                        sample={"tick": case["tick"], "p0": case["p0"], "continuous": case["continuous"],
                                "ops": case["ops"][:25], "n_ops": len(case["ops"]), "flags": f})

    return check_case


def frac(merged, part, cls) -> float:
    m = merged[part]
    return m["classes"].get(cls, 0) / max(1, m["evaluations"])


def fuzz_part(prop_id: str, oracles, nontrivial):
    """a PARTS entry running the atheris target (thorough tier only: quick budget 0)."""
    import glob
    import json
    import os
    import shutil
    import subprocess
    import sys
    import tempfile

    from ..common import VERIF_DIR, _new_result, derive_seed

    def shard(shard, n_shards, tier, seed, budget):
        res = _new_result()
        d = tempfile.mkdtemp(prefix=f"pamsfuzz_{prop_id}_")
        try:
            os.makedirs(d + "/corpus")
            # half of the shards start from an empty corpus, the others from a few small hand-made inputs
            if shard % 2:
                for i, b in enumerate([bytes([0, 0, 1] + [0, 5, 1, 1, 0, 0] * 4 + [14, 0, 21]), bytes(range(40)), bytes([3, 2, 9] + [7, 250, 0, 2, 1, 1] * 8 + [22, 1, 3])]):
                    open(f"{d}/corpus/seed{i}", "wb").write(b)
            cmd = [sys.executable, os.path.join(VERIF_DIR, "pbt", "fuzz_market.py"), prop_id, d + "/out", f"-runs={budget}",
                   f"-seed={1 + derive_seed(prop_id, 'fuzz', seed, shard) % (2**31 - 2)}", "-max_len=700", "-timeout=60", f"-artifact_prefix={d}/", d + "/corpus"]
            r = subprocess.run(cmd, capture_output=True, text=True, cwd=d)
            stats = {"n": 0, "ops": 0, "rounds": 0, "with_fills": 0, "hashes": [], "samples": []}
            for f in glob.glob(d + "/out/stats-*.json"):
                stats = json.load(open(f))
            res["evaluations"] = stats["n"]
            res["steps"] = stats["ops"]
            res["nontrivial_hashes"] = set(stats.get("hashes", []))
            res["samples"] = stats.get("samples", [])[:1]
            res["classes"] = {"fuzz_cases_with_fills": stats["with_fills"], "fuzz_rounds": stats["rounds"]}
            cov = [l for l in r.stderr.splitlines() if " cov: " in l]
            if cov:
                res["extra"]["libfuzzer_last_status"] = cov[-1].strip()[:160]
            vio = sorted(glob.glob(d + "/out/violation-*.json"))
            if vio:
                v = json.load(open(vio[0]))
                res["violation"] = {"case": v["case"], "oracle": v["oracle"], "message": v["message"], "detail": v.get("detail")}
            elif r.returncode != 0:
                res["harness_error"] = f"fuzz target exited {r.returncode}: {r.stderr[-1500:]}"
            return res
        finally:
            shutil.rmtree(d, ignore_errors=True)

    return {"shard": shard, "replay": make_check(oracles, nontrivial), "budget": {"quick": 0, "thorough": 800000}}
