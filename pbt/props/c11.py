"""C11 -- agent callbacks: each party told exactly once of its orders, cancels, fills."""
from ..common import CaseInfo
from ..oracles import Analysis, check_c11
from ..simharness import run_case
from ..strategies import sample_cases, sim_cases, spec_strategy
from ._sim_common import frac, summarize

ID = "C11"
RULE = ("(scripted agents also come as classes that inherit everything from an intermediate class, and as HighFrequencyAgent subclasses that list HighFrequencyAgent BEFORE the base supplying the callbacks) Configurations as for C05 (scripted normal and high-frequency agents + traced built-in agents; in half of the runs a TradingHaltRule on some of the markets, so that rounds stop a market half-way through their dispatch). submitted_order / "
        "canceled_order / executed_order calls recorded per agent are compared as multisets (and, per agent, in order) with "
        "the agents' own accepted orders / cancels and with the fills seen by the logger (buyer once + seller once, twice on "
        "a self-trading agent, nobody else; record fields equal); at every executed_order call the holdings of ALL agents "
        "must already include every fill of that matching round. Non-trivial = run with a self-trade and a round of >=3 "
        "fills involving >=3 agents.")
ASSUMPTIONS = ["record equality is by field values, not object identity"]


def check_case(case):
    res = run_case(case)
    st = check_c11(Analysis(case, res))
    nt = st["self_trades"] >= 1 and st["max_round"] >= 3 and st["max_parties"] >= 3
    classes = [k for k in ("fills", "self_trades", "cancels") if st[k]]
    if st["max_round"] >= 3:
        classes.append("round_ge3")
    if st["max_parties"] >= 3:
        classes.append("parties_ge3")
    return CaseInfo(nontrivial=nt, classes=classes, steps=st["orders"], sample={"case": summarize(case), "stats": st})


def _strategy(tier):
    big = tier == "thorough"
    # many small resting orders and occasional large crossing ones: rounds with many fills and parties
    spec = spec_strategy(offs=[-3, -2, -1, 0, 1, 2, 3], volumes=(1, 6))
    return sim_cases(builtin=True, steps=(2, 20) if big else (2, 8), agents_per_group=(2, 5), groups=(1, 3), spec=spec, n_markets=(1, 2),
                     caps=(1, 5), decline_weight=0, rules=True)


PARTS = {"sim": {"check": check_case, "strategy": _strategy, "budget": {"quick": 3000, "thorough": 40000}}}


def samples_check(case):
    """the repository's own sample configurations (scaled down, with recording agent classes)"""
    res = run_case(case)
    st = check_c11(Analysis(case, res))
    return CaseInfo(nontrivial=st["fills"] > 0, classes=["sample_" + case["sample"]] + (["fills"] if st["fills"] else []), steps=st.get("orders", st.get("observations", 0)),
                    sample={"sample": case["sample"], "seed": case["seed"], "sessions": [s["iterationSteps"] for s in case["config"]["simulation"]["sessions"]], "stats": st})


PARTS["samples"] = {"check": samples_check, "strategy": lambda tier: sample_cases(), "budget": {"quick": 64, "thorough": 1600}}


def vacuity(merged, tier):
    for cls, lim in (("fills", 0.16), ("self_trades", 0.04), ("round_ge3", 0.012), ("parties_ge3", 0.02)):
        if frac(merged, "sim", cls) < lim:
            return f"class {cls} below {lim:.0%} of runs"
    return None
