"""C15 -- price limit rule: accepted prices stay in the band; other markets untouched."""
from hypothesis import strategies as st

from ..common import CaseInfo, Violation
from ..models import tick_violation
from ..oracles import Analysis
from ..simharness import run_case
from ..strategies import resolved_config, via_templates, program_strategy, spec_strategy
from ._sim_common import frac, summarize

ID = "C15"
RULE = ("(one case in three registers an unrelated probe event with a TIMED order hook before the rule) Hypothesis generates 2-3 markets (whose names are prefixes / suffixes / case variants of one another in three cases of four), a PriceLimitRule with rate r in {0.005..0.5} over a non-empty proper or full subset of "
        "them (in half of the cases with a second rule of another rate over remaining markets, enabled or not), and scripted agents whose limit prices lie far outside, exactly on the edge of (p0*(1+-r) requested as an absolute "
        "price is approximated by integer/fractional tick offsets up to +-60 ticks), and inside the band, plus market orders. A "
        "probe event registered before the rule records, for every pending order, the asked price and p0 = "
        "get_market_price(0) at that moment. Oracle per accepted order: on a target market the accepted price is an admissible "
        "tick rounding (C19 oracle) of clip(asked, p0(1-r), p0(1+r)); market orders unchanged; on a non-target market an "
        "admissible tick rounding of the asked price itself; every fill on a target market lies within [p0(1-r) - tick, "
        "p0(1+r) + tick]; side, volume and lifetime never change. Non-trivial = run in which an order on a target market was "
        "clipped and an order on a non-target market lay outside the band.")
ASSUMPTIONS = ["p0 is what get_market_price(0) returns when the rule looks (slot 0 is still written during step 0)",
               "an asked price within 1e-12 relative of a band edge may be accepted either clipped or unchanged"]


@st.composite
def cases(draw, tier):
    nm = draw(st.integers(2, 3))
    # (market names that are prefixes / suffixes / case variants of one another: a rule names its targets exactly)
    names = draw(st.sampled_from([["M0", "M1", "M2"], ["M1", "M10", "M"], ["Spot", "Spot-1", "aSpot"], ["m0", "M0", "M00"]]))[:nm]
    if draw(st.booleans()):
        names = names[::-1]
    cfg = {"simulation": {"markets": list(names), "agents": ["A0"], "sessions": []}}
    for n in names:
        cfg[n] = {"class": "Market", "tickSize": draw(st.sampled_from([1.0, 0.5, 0.1, 0.01])), "marketPrice": draw(st.sampled_from([100.0, 250.0, 1000.0]))}
    if nm == 3 and draw(st.integers(0, 2)) == 0:
        # an index over the first two markets, listed BEFORE the third one
        for n in names[:2]:
            cfg[n]["outstandingShares"] = 100
        cfg["IDX"] = {"class": "IndexMarket", "tickSize": 1.0, "marketPrice": 100.0, "markets": names[:2]}
        cfg["simulation"]["markets"].insert(2, "IDX")
    r = draw(st.sampled_from([0.005, 0.02, 0.05, 0.1, 0.3, 0.5]))
    traded = list(cfg["simulation"]["markets"])  # (agents trade the index market as well when there is one)
    offs = [-6, -2, -1, 0, 1, 2, 6]
    fracs = [-0.7, -0.4, -0.12, -0.06, -0.03, -0.011, -0.004, 0.004, 0.011, 0.03, 0.06, 0.12, 0.4, 0.7]
    spec = spec_strategy(offs=offs, volumes=(1, 3), ttls=(None, 2, 5), own_cancel=False, rel_fracs=fracs, edge_rates=[r, -r])
    cfg["A0"] = {"class": "VScriptedAgent", "numAgents": draw(st.integers(2, 5)), "markets": traded, "assetVolume": 10, "cashAmount": 1000,
                 "scripts": draw(st.lists(program_strategy(spec, max_actions=5, decline_weight=0), min_size=1, max_size=3))}
    if draw(st.booleans()):
        cfg["H0"] = {"class": "VScriptedHFT", "numAgents": 1, "markets": traded, "assetVolume": 10, "cashAmount": 1000,
                     "scripts": [draw(program_strategy(spec, max_actions=3))]}
        cfg["simulation"]["agents"].append("H0")
    pool = list(names) + (["IDX"] if "IDX" in cfg else [])  # (an index market is a market: it can be a target too)
    k = draw(st.integers(1, len(pool)))
    targets = draw(st.permutations(pool))[:k]
    cfg["PL"] = {"class": "PriceLimitRule", "targetMarkets": list(targets), "triggerChangeRate": r,
                 "enabled": draw(st.sampled_from([True, True, True, True, False]))}
    if draw(st.integers(0, 3)) == 0:
        cfg["PL"]["referenceMarket"] = draw(st.sampled_from(names))  # obsolete key, accepted with a warning: it changes nothing
    if draw(st.integers(0, 3)) == 0:
        cfg["PL"]["class"] = "VSubPriceLimitRule"  # a user subclass that inherits every handler
    via_templates(draw, cfg, "PL")
    rest = [n for n in names if n not in targets]
    second = bool(rest) and draw(st.booleans())
    if second:
        # a second, independent rule over (some of) the remaining markets with its own rate, possibly disabled
        k2 = draw(st.integers(1, len(rest)))
        cfg["PL2"] = {"class": "PriceLimitRule", "targetMarkets": rest[:k2], "triggerChangeRate": draw(st.sampled_from([0.01, 0.2, 0.4])),
                      "enabled": draw(st.sampled_from([True, True, False]))}
    cfg["P"] = {"class": "VProbeEvent", "hooks": [["order", True, None, None, None], ["execution", False, None, None, None]]}
    timed = draw(st.integers(0, 2)) == 0
    if timed:
        # an unrelated event with a TIMED order hook, registered before the rule (whose own hook is untimed)
        cfg["PT"] = {"class": "VProbeEvent", "hooks": [["order", True, sorted(draw(st.sets(st.integers(0, 12), min_size=1, max_size=4))), None, None]]}
    ns = draw(st.integers(1, 3))
    pls = draw(st.integers(0, ns - 1))
    pls2 = draw(st.integers(0, ns - 1))
    for s in range(ns):
        cfg["simulation"]["sessions"].append({"sessionName": s, "iterationSteps": draw(st.integers(1, 8 if tier == "quick" else 30)), "withOrderPlacement": True,
                                              "withOrderExecution": draw(st.sampled_from([True, True, False])), "withPrint": False,
                                              "maxNormalOrders": draw(st.integers(1, 5)),
                                              "events": (["P"] if s == 0 else []) + (["PT"] if timed and s == 0 else []) + (["PL"] if s == pls else []) + (["PL2"] if second and s == pls2 else [])})
    return {"config": cfg, "seed": draw(st.integers(0, 2**31 - 1))}


def check_case(case):
    res = run_case(case)
    A = Analysis(case, res)
    sim, cfg = A.sim, resolved_config(case["config"])
    pl = cfg["PL"]
    # rate in force per market: each market is targeted by at most one (enabled) rule
    rate_of = {}
    for rule in (cfg["PL"], cfg.get("PL2")):
        if rule is not None and rule.get("enabled", True):
            for n in rule["targetMarkets"]:
                rate_of[n] = rule["triggerChangeRate"]
    targets = set(rate_of)
    probe = {}
    for k, kw in A.items:
        if k == "hook" and kw["what"] == "order_before":
            probe[id(kw["order"])] = kw
    logs = {(l.market_id, l.order_id): l for _, l in A.order_logs}
    st_ = {"clipped": 0, "inside": 0, "non_target_outside": 0, "market_orders": 0, "edge": 0}
    for o, snap, _ in A.returned_orders:
        l = logs.get((o.market_id, o.order_id))
        if l is None:
            raise Violation("C15.order_lost", "an order returned by an agent was never accepted")
        m = sim.id2market[o.market_id]
        rec = probe.get(id(o))
        if rec is not None:
            p0 = rec["p0"]
        else:
            # the probe's before-order hook did not fire for this order (event dispatch is broken): time-0 prices are final
            # after step 0, so later orders can still be judged against the value read now
            st_["probe_missing"] = st_.get("probe_missing", 0) + 1
            if l.time == 0:
                continue
            p0 = m.get_market_price(0)
        if (l.is_buy, l.kind.name, l.volume, l.ttl) != (snap["is_buy"], snap["kind"], snap["volume"], snap["ttl"]):
            raise Violation("C15.only_price_changes", f"order {snap} accepted as buy={l.is_buy} kind={l.kind.name} volume={l.volume} ttl={l.ttl}")
        asked = snap["price"]
        if asked is None:
            st_["market_orders"] += 1
            if l.price is not None:
                raise Violation("C15.market_order_unchanged", f"market order accepted with price {l.price!r}")
            continue
        if l.price is None:
            raise Violation("C15.limit_order_lost_price", "")
        r = rate_of.get(m.name, pl["triggerChangeRate"])
        lo, hi = p0 * (1 - r), p0 * (1 + r)
        if m.name in targets:
            cands = [min(max(asked, lo), hi)]
            if abs(asked - lo) <= 1e-12 * p0 or abs(asked - hi) <= 1e-12 * p0:
                cands.append(asked)
                st_["edge"] += 1
            msgs = [tick_violation(c, m.tick_size, l.price, l.is_buy) for c in cands]
            if all(msgs):
                raise Violation("C15.accepted_price_in_band", f"target market {m.name} (tick {m.tick_size}): asked {asked!r}, band [{lo!r}, {hi!r}] (p0 {p0!r}, r {r}), "
                                                              f"accepted {l.price!r}: {msgs[0]}")
            if cands[0] != asked:
                st_["clipped"] += 1
            else:
                st_["inside"] += 1
        else:
            msg = tick_violation(asked, m.tick_size, l.price, l.is_buy)
            if msg:
                raise Violation("C15.non_target_unchanged", f"market {m.name} is not a target: asked {asked!r} accepted {l.price!r}: {msg}")
            if not (lo <= asked <= hi):
                st_["non_target_outside"] += 1
    # fills: every fill price is the accepted price of one of its two orders (C01), each of which was inside the band
    # evaluated with the p0 of its acceptance; p0 can still move during step 0, so the band is the hull over all p0
    # readings of that market so far (constant, hence tight, from step 1 on)
    n_target_fills = 0
    p0s = {}
    for k, kw in A.items:
        if k == "hook" and kw["what"] == "order_before":
            mid = kw["snap"]["market_id"]
            p0s.setdefault(mid, set()).add(kw["p0"])
        if k == "hook" and kw["what"] == "execution_after":
            l = kw["log"]
            m = sim.id2market[l.market_id]
            p0s.setdefault(l.market_id, set()).add(kw["p0"])
            if m.name in targets:
                n_target_fills += 1
                r = rate_of[m.name]
                lo = min(p0s[l.market_id]) * (1 - r) - m.tick_size
                hi = max(p0s[l.market_id]) * (1 + r) + m.tick_size
                if not (lo * (1 - 1e-12) <= l.price <= hi * (1 + 1e-12)):
                    raise Violation("C15.trade_outside_band", f"fill at {l.price!r} (time {l.time}) on target market {m.name}; band widened by one tick is "
                                                              f"[{lo!r}, {hi!r}] over the time-0 prices seen so far {sorted(p0s[l.market_id])}")
    nt = st_["clipped"] > 0 and (st_["non_target_outside"] > 0 or len(targets) == len(sim.markets))
    classes = [k for k, v in st_.items() if v] + (["target_fills"] if n_target_fills else []) + ([] if pl["enabled"] else ["disabled"]) + \
              (["two_rules"] if "PL2" in cfg else [])
    return CaseInfo(nontrivial=nt, classes=classes, steps=len(A.order_logs),
                    sample={"rule": pl, "ticks": {n: cfg[n]["tickSize"] for n in cfg["simulation"]["markets"]}, "stats": st_, "target_fills": n_target_fills,
                            "seed": case["seed"]})


PARTS = {"sim": {"check": check_case, "strategy": cases, "budget": {"quick": 3000, "thorough": 40000}}}


def vacuity(merged, tier):
    for cls, lim in (("clipped", 0.14), ("inside", 0.2), ("edge", 0.08), ("non_target_outside", 0.08), ("market_orders", 0.08), ("target_fills", 0.12)):
        if frac(merged, "sim", cls) < lim:
            return f"class {cls} below {lim:.0%} of runs"
    return None
