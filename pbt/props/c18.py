"""C18 -- config expansion: inheritance, counts/ranges, names, random values, aliases."""
import copy
import inspect
import math
import random
import warnings

from hypothesis import strategies as st

from ..common import CaseInfo, Violation, classify_exception
from ..models import ref_json_extends

warnings.simplefilter("ignore")
import pams  # noqa: E402
import pams.agents  # noqa: E402
import pams.events  # noqa: E402
import pams.logs  # noqa: E402
import pams.utils  # noqa: E402
from pams.logs.base import Logger  # noqa: E402
from pams.runners.sequential import SequentialRunner  # noqa: E402
from pams.session import Session  # noqa: E402
from pams.simulator import Simulator  # noqa: E402
from pams.utils.class_finder import find_class  # noqa: E402
from pams.utils.json_extends import json_extends  # noqa: E402
from pams.utils.json_random import JsonRandom  # noqa: E402

ID = "C18"
RULE = ("(extends) dictionaries of 1-8 entries with random 'extends' pointers (chains to depth 8, shared parents, self-loops, "
        "cycles, missing parents), keys from a small alphabet incl. non-inheritable ones, values that are numbers, [a,b] ranges, one-key distribution dicts, nested dicts, strings or null (a child value replaces the ancestor value as a whole), against a reference resolver written "
        "from the statement; inputs must not be mutated. Non-trivial = chain of depth >=3 with an overridden key, or an error "
        "case. (expand) 1-4 market groups and 1-3 agent groups declared by numMarkets/numAgents 1-6, inclusive from/to ranges "
        "of length 1-6 at arbitrary offsets, or neither, with/without prefix, directly or through 'extends' templates that "
        "themselves carry counts / ranges / prefixes, set up by the real SequentialRunner: exact entity count, ids consecutive "
        "from 0 in declaration order, distinct names, group membership, from/to never inherited, each agent can access exactly "
        "the markets of the groups it lists; contradictory declarations are refused. Non-trivial = a range of length 2 or an "
        "offset range. (random) JsonRandom specs with real seeded PRNGs: const, [a,b] / uniform (a <= x <= b), expon (x >= 0, "
        "mean within 7 sigma over 400 draws), normal (mean / std within 7 sigma), malformed specs refused. (classes) every public class of "
        "pams' namespaces resolves to itself, generated user classes resolve once registered, unknown or doubly defined names "
        "are refused. (agentparams) timeWindowSize / meanReversionTime of FCN agents and orderTimeLength of the market maker given as [a, b] or uniform[a, b] with small widths: the integer that comes out lies in a .. b-1. (userclasses) a configuration naming user-defined Market / IndexMarket / Agent / HighFrequencyAgent / EventABC subclasses (directly or through an 'extends' template) registered with runner.class_register: every created entity is an instance of exactly the named class, and a user class that was not registered is refused. (legacy) maxHifreqOrders / hifreqSubmitRate set the same Session attributes as their replacements; both "
        "spellings together are refused.")
ASSUMPTIONS = ["termination is judged with a 5 s (json_extends) / 10 s (runner setup) watchdog per call; the calls take microseconds / milliseconds",
               "uniform draws may hit the closed upper end by one float rounding (a <= x <= b is demanded, not x < b)",
               "group prefixes are generated distinct per group (equal prefixes legitimately collide and are refused by pams)"]

KEYS = ["a", "b", "c", "from", "to", "numAgents", "prefix"]


# -- (a) json_extends ---------------------------------------------------------------------------------------------------


# values as they occur in configurations: numbers, [a, b] ranges, one-key distribution dicts, nested settings, names, null.
# Inheritance is per top-level key: a child's value replaces the ancestor's whole value, whatever its type.
VALUES = st.one_of(st.integers(0, 9), st.integers(0, 9),
                   st.lists(st.integers(0, 9), min_size=2, max_size=2),
                   st.builds(lambda k, v: {k: v}, st.sampled_from(["const", "expon", "uniform", "normal"]), st.lists(st.integers(0, 9), min_size=1, max_size=2)),
                   st.dictionaries(st.sampled_from(["x", "y", "extends", "a"]), st.one_of(st.integers(0, 9), st.dictionaries(st.sampled_from(["x", "z"]), st.integers(0, 9), max_size=2)), max_size=3),
                   st.sampled_from(["N0", "text", None, True, 0.5]))


@st.composite
def extends_cases(draw, tier):
    n = draw(st.integers(1, 8))
    names = [f"N{i}" for i in range(n)]
    whole = {}
    for nm in names:
        d = {k: draw(VALUES) for k in draw(st.lists(st.sampled_from(KEYS), max_size=4, unique=True))}
        r = draw(st.integers(0, 9))
        if r < 7:
            d["extends"] = draw(st.sampled_from(names + ["missing"])) if r == 0 else draw(st.sampled_from(names))
        whole[nm] = d
    if draw(st.booleans()):
        # force a long chain N0 <- N1 <- ... so that deep inheritance is common
        for i in range(n - 1):
            whole[names[i]]["extends"] = names[i + 1]
        if draw(st.integers(0, 3)) > 0:
            whole[names[-1]].pop("extends", None)
    return {"whole": whole, "start": draw(st.sampled_from(names)), "excludes": draw(st.lists(st.sampled_from(KEYS), max_size=3, unique=True)),
            "detached": draw(st.booleans())}


def extends_check(case):
    whole = case["whole"]
    name = case["start"]
    target = whole[name]
    if case["detached"]:
        target = dict(target)  # a target that is not itself an entry of whole_json (as the runner passes for events)
    w0, t0 = copy.deepcopy(whole), copy.deepcopy(target)
    try:
        exp = ("ok", ref_json_extends(whole, name, target, case["excludes"]))
    except ValueError:
        exp = ("err",)
    try:
        got = ("ok", json_extends(whole_json=whole, parent_name=name, target_json=target, excludes_fields=case["excludes"]))
    except ValueError:
        got = ("err",)
    except Exception as e:  # noqa: BLE001
        raise Violation("C18.extends_error_kind", f"json_extends raised {type(e).__name__}: {e}")
    if whole != w0 or target != t0:
        raise Violation("C18.extends_mutates_input", "json_extends modified its input")
    if exp != got:
        raise Violation("C18.extends_result", f"entry {name} of {whole} (excludes {case['excludes']}): reference {exp}, json_extends {got}")
    if got[0] == "ok" and "extends" in got[1]:
        raise Violation("C18.extends_result", "'extends' left in the result")
    depth = 0
    cur = target
    seen = set()
    while "extends" in cur and cur["extends"] in whole and cur["extends"] not in seen:
        seen.add(cur["extends"])
        cur = whole[cur["extends"]]
        depth += 1
    nt = exp[0] == "err" or depth >= 3
    return CaseInfo(nontrivial=nt, classes=[exp[0], f"depth{min(depth, 4)}"], sample=case)


# -- (b) runner expansion -------------------------------------------------------------------------------------------------


@st.composite
def decl(draw, count_key):
    """own declaration of a group: (dict fragment, expected count or None if it does not decide, uses_range)"""
    kind = draw(st.sampled_from(["count", "range", "range", "none"]))
    if kind == "count":
        n = draw(st.integers(1, 6))
        return {count_key: n}, n, False
    if kind == "range":
        lo = draw(st.sampled_from([0, 0, 1, 3, 10, 100]))
        ln = draw(st.sampled_from([1, 2, 2, 3, 6]))
        return {"from": lo, "to": lo + ln - 1}, ln, True
    return {}, None, False


@st.composite
def expand_cases(draw, tier):
    cfg = {"simulation": {"markets": [], "agents": [],
                          "sessions": [{"sessionName": 0, "iterationSteps": 1, "withOrderPlacement": False, "withOrderExecution": False, "withPrint": False}]}}
    expect = {"markets": [], "agents": []}
    error = False
    templates = 0
    for kind, count_key, base in (("markets", "numMarkets", {"class": "Market", "tickSize": 1.0, "marketPrice": 100.0}),
                                  ("agents", "numAgents", {"class": "TestAgent", "cashAmount": 1000, "assetVolume": 5})):
        for g in range(draw(st.integers(1, 4 if kind == "markets" else 3))):
            # (group names that are prefixes of one another plus digits: member names are derived from them)
            name = (["MG", "MG1", "MG10", "MG0"] if kind == "markets" else ["AG", "AG1", "AG10"])[g]
            own, n_own, own_range = draw(decl(count_key))
            entry = dict(own)
            n_inh = None
            use_template = draw(st.integers(0, 2)) == 0
            if use_template:
                tname = f"T{templates}"
                templates += 1
                tdecl, tn, trange = draw(decl(count_key))
                cfg[tname] = dict(base, **tdecl)
                if draw(st.booleans()) and "prefix" not in own:
                    pass
                entry["extends"] = tname
                if not trange:
                    n_inh = tn  # a count is inheritable; from/to are not
                if draw(st.booleans()):
                    # a second level
                    t2 = f"T{templates}"
                    templates += 1
                    cfg[t2] = dict(base)
                    for k in ("class", "tickSize", "marketPrice", "cashAmount", "assetVolume"):
                        cfg[tname].pop(k, None)
                    cfg[tname]["extends"] = t2
            else:
                entry.update(base)
            if draw(st.booleans()):
                entry["prefix"] = f"{name}x"
            if own_range and n_inh is not None:
                error = True  # a range together with an (inherited) count is contradictory
            count = n_own if n_own is not None else (n_inh if n_inh is not None else 1)
            if kind == "agents":
                mg = cfg["simulation"]["markets"]
                entry["markets"] = draw(st.lists(st.sampled_from(mg), min_size=1, max_size=len(mg), unique=True))
            cfg[name] = entry
            cfg["simulation"][kind].append(name)
            expect[kind].append((name, count, own_range or (n_own is None and False)))
    return {"config": cfg, "expect": {k: [list(x) for x in v] for k, v in expect.items()}, "error": error, "seed": draw(st.integers(0, 1000))}


def expand_check(case):
    cfg = copy.deepcopy(case["config"])
    r = SequentialRunner(settings=cfg, prng=random.Random(case["seed"]), logger=Logger())
    try:
        r._setup()
    except Exception as e:  # noqa: BLE001
        if case["error"] and isinstance(e, ValueError):
            return CaseInfo(nontrivial=True, classes=["contradiction_refused"], sample=case["config"])
        crash = classify_exception(e)
        if crash is None:
            raise
        raise Violation("C18.expansion_failed", f"setup of an admissible configuration raised {type(e).__name__}: {e}", crash.tb_text)
    if case["error"]:
        raise Violation("C18.contradiction_accepted", "a group with both a range and a count was accepted")
    sim = r.simulator
    classes = []
    for kind, ents, byid, byname, bygroup in (("markets", sim.markets, sim.id2market, sim.name2market, sim.markets_group_name2market),
                                              ("agents", sim.agents, sim.id2agent, sim.name2agent, sim.agents_group_name2agent)):
        ids = [e.market_id if kind == "markets" else e.agent_id for e in ents]
        total = sum(c for _, c, _ in case["expect"][kind])
        if len(ents) != total:
            raise Violation("C18.entity_count", f"{kind}: {len(ents)} created, declarations say {[(n, c) for n, c, _ in case['expect'][kind]]}")
        if ids != list(range(total)):
            raise Violation("C18.consecutive_ids", f"{kind}: ids {ids}")
        names = [e.name for e in ents]
        if len(set(names)) != len(names) or set(byname) != set(names) or len(byid) != total:
            raise Violation("C18.unique_names", f"{kind}: names {names}")
        pos = 0
        for gname, count, _ in case["expect"][kind]:
            got = bygroup.get(gname, [])
            if [id(x) for x in got] != [id(x) for x in ents[pos:pos + count]]:
                raise Violation("C18.group_membership", f"{kind} group {gname}: {len(got)} members, expected {count} (ids {list(range(pos, pos + count))})")
            pos += count
            if count == 2:
                classes.append("range_or_count_of_two")
    for gname, count, _ in case["expect"]["agents"]:
        want = set()
        for mg in case["config"][gname]["markets"]:
            want |= {m.market_id for m in sim.markets_group_name2market[mg]}
        for a in sim.agents_group_name2agent[gname]:
            acc = {m.market_id for m in sim.markets if a.is_market_accessible(m.market_id)}
            if acc != want or set(a.asset_volumes) != want:
                raise Violation("C18.accessible_markets", f"agent {a.name} of group {gname} (markets {case['config'][gname]['markets']}) can access {sorted(acc)}, expected {sorted(want)}")
            if a.cash_amount != 1000.0 or any(v != 5 for v in a.asset_volumes.values()):
                raise Violation("C18.constant_endowment", f"agent {a.name}: cash {a.cash_amount} shares {a.asset_volumes}")
    ranges = [e for k in ("markets", "agents") for e in case["expect"][k] if "from" in case["config"][e[0]]]
    offset = any(case["config"][e[0]]["from"] != 0 for e in ranges)
    two = any(e[1] == 2 for e in ranges)
    if ranges:
        classes.append("range")
    if offset:
        classes.append("offset_range")
    if any("extends" in case["config"][e[0]] for k in ("markets", "agents") for e in case["expect"][k]):
        classes.append("extends")
    return CaseInfo(nontrivial=two or offset, classes=classes, sample=case["config"])


# -- (c) JsonRandom -------------------------------------------------------------------------------------------------------

num = st.one_of(st.integers(-1000, 1000), st.floats(-1e6, 1e6, allow_nan=False))
pos = st.one_of(st.integers(1, 1000), st.floats(1e-6, 1e6, allow_nan=False))


@st.composite
def random_cases(draw, tier):
    kind = draw(st.sampled_from(["const", "list", "uniform", "expon", "normal", "number", "bad"]))
    seed = draw(st.integers(0, 2**31 - 1))
    if kind == "const":
        return {"kind": kind, "seed": seed, "spec": {"const": [draw(num)]}}
    if kind in ("list", "uniform"):
        a = draw(num)
        b = draw(st.one_of(st.just(a), num))
        a, b = min(a, b), max(a, b)
        return {"kind": kind, "seed": seed, "spec": [a, b] if kind == "list" else {"uniform": [a, b]}}
    if kind == "expon":
        return {"kind": kind, "seed": seed, "spec": {"expon": [draw(pos)]}}
    if kind == "normal":
        return {"kind": kind, "seed": seed, "spec": {"normal": [draw(num), draw(st.one_of(st.just(0), pos))]}}
    if kind == "number":
        return {"kind": kind, "seed": seed, "spec": draw(num)}
    bad = draw(st.sampled_from([[1], [1, 2, 3], [], {"const": 1}, {"const": [1, 2]}, {"const": []}, {"uniform": [1]}, {"uniform": 3}, {"uniform": [1, 2, 3]},
                                {"normal": [1]}, {"normal": 1}, {"expon": []}, {"expon": [1, 2]}, {"expon": 2}, {"foo": [1]}, {"const": [1], "uniform": [1, 2]}, {}]))
    return {"kind": kind, "seed": seed, "spec": bad}


def random_check(case):
    jr = JsonRandom(prng=random.Random(case["seed"]))
    kind, spec = case["kind"], case["spec"]
    if kind == "bad":
        try:
            v = jr.random(json_value=copy.deepcopy(spec))
        except ValueError:
            return CaseInfo(nontrivial=True, classes=["bad"], sample=case)
        raise Violation("C18.malformed_spec_accepted", f"{spec} produced {v!r}")
    N = 400
    xs = [jr.random(json_value=copy.deepcopy(spec)) for _ in range(N)]
    if not all(isinstance(x, float) and math.isfinite(x) for x in xs):
        raise Violation("C18.random_value_type", f"{spec}: non-float or non-finite value")
    if kind in ("const", "number"):
        v = float(spec["const"][0]) if kind == "const" else float(spec)
        if any(x != v for x in xs):
            raise Violation("C18.random_support", f"{spec} produced {sorted(set(xs))[:3]}")
    elif kind in ("list", "uniform"):
        a, b = (spec if kind == "list" else spec["uniform"])
        a, b = float(a), float(b)
        bad = [x for x in xs if not (a <= x <= b)]
        if bad:
            raise Violation("C18.random_support", f"{spec} produced {bad[0]!r} outside [{a}, {b}]")
        if b - a > 1e-9 * max(1.0, abs(a), abs(b)):  # (a width of a few ulps / subnormals has no meaningful sample mean)
            mean = sum(xs) / N
            if abs(mean - (a + b) / 2) > 7 * (b - a) / math.sqrt(12 * N):
                raise Violation("C18.random_distribution", f"{spec}: sample mean {mean!r} over {N} draws")
    elif kind == "expon":
        lam = float(spec["expon"][0])
        if any(x < 0 for x in xs):
            raise Violation("C18.random_support", f"{spec} produced a negative value")
        mean = sum(xs) / N
        if abs(mean - lam) > 7 * lam / math.sqrt(N):
            raise Violation("C18.random_distribution", f"{spec}: sample mean {mean!r} over {N} draws, documented mean {lam}")
    elif kind == "normal":
        mu, sg = float(spec["normal"][0]), float(spec["normal"][1])
        mean = sum(xs) / N
        if sg == 0:
            if any(x != mu for x in xs):
                raise Violation("C18.random_support", f"{spec}")
        else:
            sd = math.sqrt(sum((x - mean) ** 2 for x in xs) / (N - 1))
            if abs(mean - mu) > 7 * sg / math.sqrt(N) or abs(sd - sg) > 7 * sg / math.sqrt(2 * N):
                raise Violation("C18.random_distribution", f"{spec}: sample mean {mean!r} std {sd!r} over {N} draws")
    return CaseInfo(nontrivial=True, classes=[kind], steps=N, sample=case)


# -- (d) class names --------------------------------------------------------------------------------------------------------


def builtin_classes():
    out = {}
    for mod in (pams, pams.agents, pams.events, pams.logs, pams.utils):
        for n in dir(mod):
            o = getattr(mod, n)
            if inspect.isclass(o) and not n.startswith("_"):
                out.setdefault(n, set()).add(o)
    return out


WORDS = ["My", "Fast", "Noise", "Trend", "Zero", "Alpha", "Custom", "Agent", "Market", "Event", "Maker", "Trader", "Shock", "Rule", "X", "Q7"]


@st.composite
def class_cases(draw, tier):
    names = draw(st.lists(st.lists(st.sampled_from(WORDS), min_size=2, max_size=3).map("".join), min_size=1, max_size=4, unique=True))
    return {"names": names, "lookup": draw(st.integers(0, 3)), "dup": draw(st.booleans()), "shadow": draw(st.sampled_from([None, None, "Market", "FCNAgent", "Logger"])),
            "unknown": "".join(draw(st.lists(st.sampled_from(WORDS), min_size=4, max_size=4)))}


def class_check(case):
    builtins = builtin_classes()
    for n, objs in builtins.items():
        if len(objs) != 1:
            continue
        o = next(iter(objs))
        try:
            got = find_class(name=n)
        except Exception as e:  # noqa: BLE001
            raise Violation("C18.builtin_class_resolves", f"find_class({n!r}) raised {type(e).__name__}: {e}")
        if got is not o:
            raise Violation("C18.builtin_class_resolves", f"find_class({n!r}) returned {got!r}")
    user = [type(n, (object,), {}) for n in case["names"] if n not in builtins]
    if not user:
        return CaseInfo(nontrivial=False, classes=["no_user_class"], sample=case)
    for c in user:
        if find_class(name=c.__name__, optional_class_list=user) is not c:
            raise Violation("C18.user_class_resolves", f"registered class {c.__name__} does not resolve to itself")
        for n in list(builtins)[:5]:
            if find_class(name=n, optional_class_list=user) is not next(iter(builtins[n])):
                raise Violation("C18.builtin_class_resolves", f"{n} with user classes registered")
    c = user[case["lookup"] % len(user)]
    try:
        find_class(name=c.__name__, optional_class_list=[x for x in user if x is not c])
    except AttributeError:
        pass
    else:
        raise Violation("C18.unregistered_class_refused", f"{c.__name__} resolved without being registered")
    if case["unknown"] not in builtins and case["unknown"] not in case["names"]:
        try:
            find_class(name=case["unknown"], optional_class_list=user)
        except AttributeError:
            pass
        else:
            raise Violation("C18.unknown_class_refused", case["unknown"])
    classes = ["user"]
    if case["dup"]:
        twin = type(c.__name__, (object,), {})
        try:
            find_class(name=c.__name__, optional_class_list=user + [twin])
        except AttributeError:
            classes.append("duplicate_refused")
        else:
            raise Violation("C18.ambiguous_class_refused", f"two registered classes named {c.__name__} were resolved silently")
    if case["shadow"]:
        sh = type(case["shadow"], (object,), {})
        try:
            find_class(name=case["shadow"], optional_class_list=[sh])
        except AttributeError:
            classes.append("shadow_refused")
        else:
            raise Violation("C18.ambiguous_class_refused", f"a user class named like the built-in {case['shadow']} was resolved silently")
    return CaseInfo(nontrivial=True, classes=classes, steps=len(builtins), sample=case)


# -- (d2) user-registered classes through the runner -------------------------------------------------------------------------


@st.composite
def userclass_cases(draw, tier):
    names = draw(st.lists(st.lists(st.sampled_from(WORDS), min_size=2, max_size=3).map("".join), min_size=5, max_size=5, unique=True))
    roles = ["market", "index", "agent", "hft", "event"]
    user = {r: draw(st.booleans()) for r in roles}
    if not any(user.values()):
        user[draw(st.sampled_from(roles))] = True
    unregistered = draw(st.sampled_from([None, None, None] + roles))
    return {"names": dict(zip(roles, names)), "user": user, "unregistered": unregistered, "n": draw(st.integers(1, 3)), "steps": draw(st.integers(1, 4)),
            "via_extends": draw(st.booleans()), "seed": draw(st.integers(0, 1000))}


def userclass_check(case):
    """a configuration that names user-defined market / index / agent / high-frequency agent / event classes registered on the
    runner (runner.class_register): every entity is created from exactly the class its entry names; a name that was not
    registered is refused."""
    from pams.agents import Agent, HighFrequencyAgent
    from pams.events import EventABC, EventHook
    from pams.index_market import IndexMarket
    from pams.market import Market
    builtins = builtin_classes()
    nm = case["names"]
    if any(v in builtins for v in nm.values()):
        return CaseInfo(nontrivial=False, classes=["name_clash"], sample=case)
    fired = []
    base = {"market": Market, "index": IndexMarket, "agent": Agent, "hft": HighFrequencyAgent, "event": EventABC}
    body = {"market": {}, "index": {},
            "agent": {"submit_orders": lambda self, markets: []}, "hft": {"submit_orders": lambda self, markets: []},
            "event": {"hook_registration": lambda self: [EventHook(event=self, hook_type="market", is_before=True, time=None)],
                      "hooked_before_step_for_market": lambda self, simulator, market: fired.append(market.market_id)}}
    cls = {r: type(nm[r], (base[r],), dict(body[r])) for r in base}
    default = {"market": "Market", "index": "IndexMarket", "agent": "TestAgent", "hft": "TestAgent", "event": "FundamentalPriceShock"}
    cname = {r: (nm[r] if case["user"][r] else default[r]) for r in base}
    cfg = {"simulation": {"markets": ["M", "I"], "agents": ["A", "H"],
                          "sessions": [{"sessionName": 0, "iterationSteps": case["steps"], "withOrderPlacement": True, "withOrderExecution": True,
                                        "withPrint": False, "maxNormalOrders": 1, "events": ["E"]}]},
           "M": {"class": cname["market"], "numMarkets": 2, "tickSize": 1.0, "marketPrice": 100.0, "outstandingShares": 10},
           "I": {"class": cname["index"], "tickSize": 1.0, "marketPrice": 100.0, "markets": ["M-0", "M-1"]},
           "A": {"class": cname["agent"], "numAgents": case["n"], "markets": ["M"], "cashAmount": 100, "assetVolume": 1},
           "H": {"class": cname["hft"], "numAgents": case["n"], "markets": ["M", "I"], "cashAmount": 100, "assetVolume": 1},
           "E": {"class": cname["event"], "target": "M-0", "triggerTime": 0, "priceChangeRate": 0.0, "enabled": False}}
    if case["via_extends"]:
        # the class name reaches the entry through a template
        for key in ("M", "A", "E"):
            cfg["T" + key] = {"class": cfg[key].pop("class")}
            cfg[key]["extends"] = "T" + key
    r = SequentialRunner(settings=cfg, prng=random.Random(case["seed"]), logger=Logger())
    missing = case["unregistered"] if case["unregistered"] and case["user"][case["unregistered"]] else None
    for role in base:
        if case["user"][role] and role != missing:
            r.class_register(cls[role])
    try:
        r._setup()
    except Exception as e:  # noqa: BLE001
        if missing is not None and isinstance(e, (AttributeError, ValueError)):
            return CaseInfo(nontrivial=True, classes=["unregistered_refused", "missing_" + missing], sample=case)
        crash = classify_exception(e)
        if crash is None:
            raise
        raise Violation("C18.user_class_resolves", f"setup with registered user classes {[nm[x] for x in base if case['user'][x]]} raised {type(e).__name__}: {e}", crash.tb_text)
    if missing is not None:
        raise Violation("C18.unregistered_class_refused", f"class {nm[missing]} ({missing}) was never registered, yet the configuration was accepted")
    sim = r.simulator
    want = {x: (cls[x] if case["user"][x] else next(iter(builtins[default[x]]))) for x in base}
    got_m = [type(m) for m in sim.markets]
    if got_m != [want["market"], want["market"], want["index"]]:
        raise Violation("C18.class_of_entity", f"markets created as {[c.__name__ for c in got_m]}, entries name {cname['market']} x2 and {cname['index']}")
    got_a = [type(a) for a in sim.agents]
    if got_a != [want["agent"]] * case["n"] + [want["hft"]] * case["n"]:
        raise Violation("C18.class_of_entity", f"agents created as {[c.__name__ for c in got_a]}, entries name {cname['agent']} / {cname['hft']}")
    if [type(a) for a in sim.high_frequency_agents] != ([want["hft"]] * case["n"] if case["user"]["hft"] else []):
        raise Violation("C18.class_of_entity", "high-frequency classification does not follow the registered class")
    evs = list(sim.events)
    if case["user"]["event"]:
        if [type(e) for e in evs] != [want["event"]]:
            raise Violation("C18.class_of_entity", f"events created as {[type(e).__name__ for e in evs]}, the session names {cname['event']}")
    return CaseInfo(nontrivial=True, classes=["resolved"] + [x for x in base if case["user"][x]] + (["via_extends"] if case["via_extends"] else []), sample=case)


# -- (d3) randomised agent parameters through the shipped agents' setup ------------------------------------------------------


@st.composite
def agentparam_cases(draw, tier):
    lo = draw(st.integers(1, 50))
    w = draw(st.sampled_from([1, 1, 2, 10]))
    form = draw(st.sampled_from(["list", "uniform"]))
    rng = [lo, lo + w] if form == "list" else {"uniform": [lo, lo + w]}
    return {"lo": lo, "hi": lo + w, "window": rng, "reversion": rng if draw(st.booleans()) else None, "n": draw(st.integers(5, 40)), "seed": draw(st.integers(0, 10**6))}


def agentparam_check(case):
    """integer-valued agent parameters given as [a, b] / {"uniform": [a, b]}: the value is drawn from a <= x < b, so its integer
    part lies in a .. b-1 (FCN agents' timeWindowSize and meanReversionTime; maker's orderTimeLength)"""
    from pams.agents import FCNAgent, MarketMakerAgent
    from pams.market import Market
    sim = Simulator(prng=random.Random(case["seed"]))
    m = Market(market_id=0, prng=random.Random(0), simulator=sim, name="M")
    m.setup({"tickSize": 1.0, "marketPrice": 100.0})
    sim._add_market(m)
    settings = {"cashAmount": 1000, "assetVolume": 10, "fundamentalWeight": 1.0, "chartWeight": 0.0, "noiseWeight": 1.0, "noiseScale": 0.001,
                "timeWindowSize": case["window"], "orderMargin": 0.01}
    if case["reversion"] is not None:
        settings["meanReversionTime"] = case["reversion"]
    seen = set()
    for i in range(case["n"]):
        a = FCNAgent(agent_id=i, prng=random.Random(case["seed"] * 1000 + i), simulator=sim, name=f"a{i}")
        a.setup(settings=settings, accessible_markets_ids=[0])
        vals = [("timeWindowSize", a.time_window_size)] + ([("meanReversionTime", a.mean_reversion_time)] if case["reversion"] is not None else [])
        mm = MarketMakerAgent(agent_id=1000 + i, prng=random.Random(case["seed"] * 1000 + i), simulator=sim, name=f"mm{i}")
        mm.setup(settings={"cashAmount": 1000, "assetVolume": 10, "targetMarket": "M", "netInterestSpread": 0.02, "orderTimeLength": case["window"]}, accessible_markets_ids=[0])
        vals.append(("orderTimeLength", mm.order_time_length))
        for nm_, v in vals:
            seen.add(v)
            if not (isinstance(v, int) and case["lo"] <= v < case["hi"]):
                raise Violation("C18.random_support", f"{nm_} configured as {case['window']} came out as {v!r}: outside {case['lo']} <= x < {case['hi']}")
    return CaseInfo(nontrivial=True, classes=["width_%d" % (case["hi"] - case["lo"])], steps=case["n"], sample=case)


# -- (e) legacy keys -----------------------------------------------------------------------------------------------------------

legacy_cases = st.fixed_dictionaries({
    "cap": st.one_of(st.none(), st.integers(0, 9)), "cap_legacy": st.booleans(),
    "rate": st.one_of(st.none(), st.sampled_from([0.0, 0.25, 0.5, 1.0])), "rate_legacy": st.booleans(),
    "both_cap": st.booleans(), "both_rate": st.booleans(), "normal": st.one_of(st.none(), st.integers(0, 9)), "steps": st.integers(1, 50),
    "placement": st.booleans(), "execution": st.booleans()})


def _session(settings):
    sim = Simulator(prng=random.Random(0))
    s = Session(session_id=0, prng=random.Random(0), session_start_time=0, simulator=sim, name="s")
    s.setup(settings=settings)
    return s


def legacy_check(case):
    base = {"sessionName": 0, "iterationSteps": case["steps"], "withOrderPlacement": case["placement"], "withOrderExecution": case["execution"], "withPrint": False}
    if case["normal"] is not None:
        base["maxNormalOrders"] = case["normal"]
    new, old = dict(base), dict(base)
    if case["cap"] is not None:
        new["maxHighFrequencyOrders"] = case["cap"]
        old["maxHifreqOrders" if case["cap_legacy"] else "maxHighFrequencyOrders"] = case["cap"]
    if case["rate"] is not None:
        new["highFrequencySubmitRate"] = case["rate"]
        old["hifreqSubmitRate" if case["rate_legacy"] else "highFrequencySubmitRate"] = case["rate"]
    a, b = _session(new), _session(old)
    attrs = ("iteration_steps", "max_normal_orders", "max_high_frequency_orders", "high_frequency_submission_rate", "with_order_placement", "with_order_execution")
    va, vb = [getattr(a, x) for x in attrs], [getattr(b, x) for x in attrs]
    if va != vb:
        raise Violation("C18.legacy_key_equivalent", f"settings {old} give {dict(zip(attrs, vb))}; with the current spellings {dict(zip(attrs, va))}")
    want = [case["steps"], case["normal"] if case["normal"] is not None else 1, case["cap"] if case["cap"] is not None else 1,
            case["rate"] if case["rate"] is not None else 1.0, case["placement"], case["execution"]]
    if va != want:
        raise Violation("C18.session_parameters", f"settings {new} give {dict(zip(attrs, va))}")
    classes = []
    for flag, k_new, k_old, v in (("both_cap", "maxHighFrequencyOrders", "maxHifreqOrders", 3), ("both_rate", "highFrequencySubmitRate", "hifreqSubmitRate", 0.5)):
        if case[flag]:
            both = dict(base, **{k_new: v, k_old: v})
            try:
                _session(both)
            except ValueError:
                classes.append("both_refused")
            else:
                raise Violation("C18.both_spellings_refused", f"{k_new} together with {k_old} was accepted")
    if case["cap_legacy"] and case["cap"] is not None:
        classes.append("legacy_cap")
    if case["rate_legacy"] and case["rate"] is not None:
        classes.append("legacy_rate")
    return CaseInfo(nontrivial=bool(classes), classes=classes, sample=case)


PARTS = {
    # "reports missing parents and cycles as errors instead of looping": a call that does not return within 5 s is looping
    "extends": {"check": extends_check, "strategy": extends_cases, "budget": {"quick": 20000, "thorough": 600000},
                "watchdog": (5, "C18.extends_terminates")},
    "expand": {"check": expand_check, "strategy": expand_cases, "budget": {"quick": 3000, "thorough": 90000},
               "watchdog": (10, "C18.expansion_terminates")},
    "random": {"check": random_check, "strategy": random_cases, "budget": {"quick": 5000, "thorough": 150000}},
    "classes": {"check": class_check, "strategy": class_cases, "budget": {"quick": 320, "thorough": 6000}},
    "userclasses": {"check": userclass_check, "strategy": userclass_cases, "budget": {"quick": 1000, "thorough": 20000},
                    "watchdog": (10, "C18.expansion_terminates")},
    "agentparams": {"check": agentparam_check, "strategy": agentparam_cases, "budget": {"quick": 400, "thorough": 6000}},
    "legacy": {"check": legacy_check, "strategy": lambda tier: legacy_cases, "budget": {"quick": 2000, "thorough": 30000}},
}


def vacuity(merged, tier):
    def fr(part, cls):
        return merged[part]["classes"].get(cls, 0) / max(1, merged[part]["evaluations"])

    for part, cls, lim in (("extends", "err", 0.04), ("extends", "depth4", 0.02), ("expand", "range", 0.16), ("expand", "offset_range", 0.08),
                           ("expand", "range_or_count_of_two", 0.08), ("expand", "extends", 0.12), ("expand", "contradiction_refused", 0.008),
                           ("random", "expon", 0.032), ("random", "bad", 0.032), ("classes", "duplicate_refused", 0.08), ("legacy", "legacy_rate", 0.06),
                           ("legacy", "legacy_cap", 0.06)):
        if fr(part, cls) < lim:
            return f"{part}: class {cls} below {lim:.0%}"
    return None
