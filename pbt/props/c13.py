"""C13 -- event hooks fire exactly at their registered occasions, times and markets."""
import random
import warnings

from hypothesis import strategies as st

from ..common import CaseInfo, Violation
from ..oracles import Analysis, check_c13
from ..simharness import run_case
from ..strategies import hook_specs, sim_cases
from ._sim_common import frac, summarize

warnings.simplefilter("ignore")
from pams.events import EventABC, EventHook  # noqa: E402
from pams.market import Market  # noqa: E402
from pams.simulator import Simulator  # noqa: E402

ID = "C13"
RULE = ("(interleaving: the after-execution hooks of a round run before the next order or cancel is accepted, and an order's before hook runs only after the previous element of the same submission was accepted; half of the runs carry a TradingHaltRule) (one case in three lists the same event entry under two sessions: each listing is an event of its own) (sim) configurations as for C05 with 1-2 user-written probe events per session, each with 1-5 hooks over all nine "
        "(type, before/after) combinations, time lists None, empty, or 1-6 distinct times inside and outside the run, class filter "
        "None/Market/IndexMarket, instance filter None/a market; one event may rewrite price and volume of pending orders; one run in four has no logger attached. "
        "The expected invocation multiset is computed from ground-truth occurrences (orders and cancels the agents returned, "
        "fills seen by the logger, session start / last step from the configuration, every (step, market)) filtered per hook "
        "and must equal the recorded multiset exactly; before-order hooks see an order without id / time / book entry and the "
        "accepted record reflects a rewrite; step hooks bracket the step's acceptances. Non-trivial = run in which >=4 "
        "different (type, before/after) combinations fired and a time-list hook both fired and was filtered out. (register) "
        "registering one EventHook object twice must raise and leave one registration.")
ASSUMPTIONS = ["time lists contain no repeated entries (no caller in pams produces them; the property speaks of membership)"]


def check_case(case):
    res = run_case(case)
    A = Analysis(case, res)
    st_ = check_c13(A)
    specs = [h for v in case["config"].values() if isinstance(v, dict) and v.get("class") == "VProbeEvent" for h in v["hooks"]]
    timed = any(h[2] is not None for h in specs)
    nt = st_["combos"] >= 4 and timed
    empty = any(h[2] == [] for h in specs)
    classes = list(st_["types"]) + (["rewritten"] if st_["rewritten"] else []) + (["timed"] if timed else []) + (["empty_time_list"] if empty else []) + (["no_logger"] if case.get("no_logger") else []) + (["relisted"] if case.get("relisted") else [])
    return CaseInfo(nontrivial=nt, classes=classes, steps=st_["invocations"], sample={"case": summarize(case), "stats": st_})


@st.composite
def cases(draw, tier):
    big = tier == "thorough"
    case = draw(sim_cases(n_markets=(1, 3), index_prob=1, steps=(1, 20) if big else (1, 8), probes=True, always_events=True, rules=True,
                          horizon=45 if big else 22, hft=True))
    cfg = case["config"]
    ses = cfg["simulation"]["sessions"]
    if len(ses) >= 2 and draw(st.integers(0, 2)) == 0:
        # the same event entry listed under two sessions: every listing is an event of its own (own id, own hooks)
        src = draw(st.sampled_from([s_ for s_ in ses if s_.get("events")] or [None]))
        if src is not None:
            dst = draw(st.sampled_from([s_ for s_ in ses if s_ is not src]))
            dst["events"] = list(dst.get("events", [])) + [draw(st.sampled_from(src["events"]))]
            case["relisted"] = True
    if draw(st.integers(0, 3)) == 0:
        case["no_logger"] = True  # hooks must fire the same whether or not a logger is attached
    if draw(st.booleans()):
        evs = [k for k, v in cfg.items() if isinstance(v, dict) and v.get("class") == "VProbeEvent"]
        e = draw(st.sampled_from(evs))
        cfg[e]["hooks"].append(["order", True, None if draw(st.booleans()) else sorted(draw(st.sets(st.integers(0, 20), min_size=1, max_size=8))), None, None])
        cfg[e]["rewrite"] = {"price_mult": draw(st.sampled_from([1.0, 0.97, 1.013])), "volume_add": draw(st.integers(0, 3))}
    return case


class _Ev(EventABC):
    def hook_registration(self):
        return []


reg_cases = st.fixed_dictionaries({"type": st.sampled_from(["order", "cancel", "execution", "session", "market"]),
                                   "before": st.booleans(), "times": st.one_of(st.none(), st.lists(st.integers(0, 9), unique=True, min_size=1, max_size=3)),
                                   "seed": st.integers(0, 1000)})


def reg_check(case):
    sim = Simulator(prng=random.Random(case["seed"]))
    ev = _Ev(event_id=0, prng=random.Random(0), session=None, simulator=sim, name="e")
    before = case["before"] and case["type"] != "execution"
    h = EventHook(event=ev, hook_type=case["type"], is_before=before, time=case["times"])
    sim._add_event(h)
    try:
        sim._add_event(h)
    except ValueError:
        pass
    else:
        raise Violation("C13.hook_registered_twice", f"the same EventHook object was accepted twice: {case}")
    key = case["type"] + ("_before" if before else "_after")
    regs = sum(lst.count(h) for lst in sim.events_dict[key].values())
    want = len(case["times"]) if case["times"] is not None else 1
    if regs != want or sim.event_hooks.count(h) != 1:
        raise Violation("C13.hook_registered_twice", f"hook present {regs} times in the dispatch table (expected {want})")
    try:
        EventHook(event=ev, hook_type="execution", is_before=True)
    except ValueError:
        pass
    else:
        raise Violation("C13.before_execution_hook_accepted", "a before-execution hook must be refused")
    return CaseInfo(nontrivial=True, classes=[key], sample=case)


PARTS = {
    "sim": {"check": check_case, "strategy": cases, "budget": {"quick": 3000, "thorough": 40000}},
    "register": {"check": reg_check, "strategy": lambda tier: reg_cases, "budget": {"quick": 200, "thorough": 2000}},
}


def vacuity(merged, tier):
    for cls in ("order_before", "order_after", "cancel_before", "cancel_after", "execution_after", "session_before", "session_after",
                "market_before", "market_after"):
        if frac(merged, "sim", cls) < 0.08:
            return f"hook kind {cls} fired in too few runs"
    if frac(merged, "sim", "rewritten") < 0.04:
        return "rewriting before-order hooks fired in too few runs"
    return None
