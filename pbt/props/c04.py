"""C04 -- order accounting and lifetime: nothing lost, no fill after cancel or expiry."""
import warnings

from hypothesis import strategies as st

from ..common import CaseInfo, Violation
from ..market_machine import market_cases
from ..oracles import Analysis, check_c04_sim
from ..simharness import CancelLog, OrderLog, run_case
from ..strategies import sim_cases
from ._sim_common import summarize
from ._market_common import frac, fuzz_part, make_check

warnings.simplefilter("ignore")
from pams.order import LIMIT_ORDER, MARKET_ORDER, Order  # noqa: E402

ID = "C04"
RULE = ("(machine part also: clock jumps of 2-12 steps through Market._set_time, cancels that name an equal deep copy of the order, pending orders rewritten before acceptance) (machine) histories as for C01 plus re-submission of accepted order objects, orders naming another market, "
        "cancels of resting / partially filled / filled / expired / already cancelled orders and every ttl; per order: "
        "accepted volume = sum of fills + volume at its first terminal record or still resting; resting volume > 0; no "
        "fill on a cancelled or expired order; depth dicts and ExpirationLogs equal the lifetime model after every op "
        "(an order leaves exactly when clock > acceptance + ttl). Non-trivial = history where an order is partially "
        "filled and then cancelled or expires, or is filled in the last step of its life. (ctor) Hypothesis over Order "
        "constructor arguments: invalid combinations raise ValueError, valid ones construct. (sim) whole simulations in "
        "which a scripted agent re-submits an accepted order, forges another agent's id or cancels another agent's "
        "order: the run must refuse (raise) and accept nothing.")
ASSUMPTIONS = ["thorough tier adds a coverage-guided atheris campaign over byte-decoded histories (16 processes, half from an empty corpus); its saved decoded case, not the campaign, is the reproducible unit",
               "the owner checks are made by the runner (spoofing check), the market/at-most-once checks by Market._add_order"]


def _nt(f):
    return bool(f.get("cancel_after_partial") or f.get("expire_after_partial") or f.get("filled_in_last_step_of_life"))


def _strategy(tier):
    return market_cases(max_ops=60 if tier == "quick" else 300, market_frac=2, illegal=True, pre_ticks=True, jumps=True)


ctor_cases = st.fixed_dictionaries({
    "market_kind": st.booleans(),
    "price": st.one_of(st.none(), st.floats(min_value=1e-6, max_value=1e6, allow_nan=False)),
    "volume": st.integers(-3, 50),
    "ttl": st.one_of(st.none(), st.integers(-3, 10)),
})


def ctor_check(case):
    valid = ((case["market_kind"] and case["price"] is None) or (not case["market_kind"] and case["price"] is not None)) \
        and case["volume"] > 0 and (case["ttl"] is None or case["ttl"] > 0)
    try:
        o = Order(agent_id=0, market_id=0, is_buy=True, kind=MARKET_ORDER if case["market_kind"] else LIMIT_ORDER,
                  volume=case["volume"], price=case["price"], ttl=case["ttl"])
    except ValueError:
        if valid:
            raise Violation("C04.ctor_rejects_valid", f"{case}")
        return CaseInfo(nontrivial=True, classes=["invalid"], sample=case)
    if not valid:
        raise Violation("C04.ctor_accepts_invalid", f"{case}")
    if o.order_id is not None or o.placed_at is not None or o.is_canceled:
        raise Violation("C04.ctor_fresh_state", "a new order must be unaccepted")
    return CaseInfo(nontrivial=True, classes=["valid"], sample=case)


def _sim_strategy(tier):
    big = tier == "thorough"
    return sim_cases(illegal=True, builtin=True, steps=(1, 20) if big else (1, 8), agents_per_group=(1, 4), n_markets=(1, 3), mistake=True)


def sim_check(case):
    """whole simulations; in about a third of them a scripted agent commits an illegal action (re-submission of an accepted
    order object, an order under another agent's id, a cancel of another agent's order), which must be refused."""
    res = run_case(case, raise_crash=True)
    tr = res.trace
    classes = []
    if tr.illegal is not None and res.refused is None:
        raise Violation("C04.illegal_action_accepted", f"a scripted agent returned an illegal action ({tr.illegal}) and the run went on without refusing it")
    if res.refused is not None:
        classes.append("refused_" + res.refused)
        # nothing of the illegal action may have been accepted
        last = [kw for k, kw in tr.items if k == "consult"][-1]
        seen = {}
        for k, kw in tr.items:
            if k == "log.write" and isinstance(kw["log"], OrderLog):
                key = (kw["log"].market_id, kw["log"].order_id)
                seen[key] = seen.get(key, 0) + 1
                if kw["log"].agent_id != last["agent"] and res.refused == "forged_agent_id":
                    pass
        if any(n > 1 for n in seen.values()):
            raise Violation("C04.accepted_twice", f"an order was accepted twice although the run refused ({res.refused})")
        if res.refused == "cancel_of_foreign_order":
            for o in last["raw"]:
                if not isinstance(o, type(last["raw"][0])):
                    continue
            foreign = [c for c in last["raw"] if not hasattr(c, "volume") and c.order.agent_id != last["agent"]]
            for c in foreign:
                if c.placed_at is not None:
                    raise Violation("C04.foreign_cancel_accepted", "a cancel of another agent's order was marked accepted")
        A = Analysis(case, res)
        return CaseInfo(nontrivial=True, classes=classes, steps=len(A.order_logs), sample={"case": summarize(case), "refused": res.refused})
    A = Analysis(case, res)
    st_ = check_c04_sim(A)
    nt = bool(st_.get("partial_then_cancel") or st_.get("partial_then_expiry") or st_.get("filled_in_last_step_of_life"))
    classes += [k for k in ("partial_then_cancel", "partial_then_expiry", "filled_in_last_step_of_life", "fills") if st_.get(k)]
    return CaseInfo(nontrivial=nt, classes=classes, steps=st_["orders"], sample={"case": summarize(case), "stats": st_})


@st.composite
def _rewrite_resubmit_cases(draw, tier):
    """an order object that was accepted is handed in again at exactly the step (and as the first order on the market) at which an
    event rewrites pending orders -- the order-mistake shock, or a user hook: 'accepted at most once' holds whatever the rewrite does"""
    j = draw(st.integers(1, 5))
    is_buy = draw(st.booleans())
    first = ["L", 0, is_buy, draw(st.sampled_from([-3, -1, 2])), draw(st.integers(1, 5)), draw(st.sampled_from([None, 9]))]
    prog = [[first]] + [[] for _ in range(j - 1)] + [[["RS", 0]]] + [[]]
    cfg = {"simulation": {"markets": ["M0"], "agents": ["A0"],
                          "sessions": [{"sessionName": 0, "iterationSteps": j + 2, "withOrderPlacement": True, "withOrderExecution": draw(st.booleans()),
                                        "withPrint": False, "maxNormalOrders": 1, "events": ["RW"]}]},
           "M0": {"class": "Market", "tickSize": 1.0, "marketPrice": 100.0},
           "A0": {"class": "VScriptedAgent", "numAgents": 1, "markets": ["M0"], "assetVolume": 10, "cashAmount": 1000, "scripts": [prog]}}
    if draw(st.booleans()):
        cfg["RW"] = {"class": "OrderMistakeShock", "target": "M0", "triggerTime": j, "priceChangeRate": draw(st.sampled_from([0.05, -0.05])),
                     "orderVolume": draw(st.integers(1, 9)), "orderTimeLength": draw(st.integers(1, 6))}
    else:
        cfg["RW"] = {"class": "VProbeEvent", "hooks": [["order", True, None, None, None]], "rewrite": {"price_mult": 1.01, "volume_add": 1}}
    return {"config": cfg, "seed": draw(st.integers(0, 2**31 - 1))}


PARTS = {
    "sim": {"check": sim_check, "strategy": _sim_strategy, "budget": {"quick": 3000, "thorough": 40000}},
    "rewrite_resubmit": {"check": sim_check, "strategy": _rewrite_resubmit_cases, "budget": {"quick": 300, "thorough": 3000}},
    "machine": {"check": make_check({"C04"}, _nt), "strategy": _strategy, "budget": {"quick": 3000, "thorough": 60000}},
    "ctor": {"check": ctor_check, "strategy": lambda tier: ctor_cases, "budget": {"quick": 2000, "thorough": 20000}},
}

def _deep_strategy(tier):
    # deep, mostly uncrossed books with many cancels from the middle (and of the best order)
    return market_cases(max_ops=60 if tier == "quick" else 300, market_frac=1, deep=True, toggles=False)


PARTS["deep"] = {"check": make_check({"C04"}, _nt), "strategy": _deep_strategy, "budget": {"quick": 2000, "thorough": 40000}}
PARTS["fuzz"] = fuzz_part("C04", {"C04"}, _nt)


def vacuity(merged, tier):
    for cls, lim in (("cancel_after_partial", 0.02), ("expire_after_partial", 0.02), ("resubmit_refused", 0.08),
                     ("foreign_refused", 0.08), ("cancel_of_dead_order", 0.08)):
        if frac(merged, "machine", cls) < lim:
            return f"class {cls} below {lim:.0%} of histories"
    for cls, lim in (("refused_resubmit", 0.01), ("refused_forged_agent_id", 0.01), ("refused_cancel_of_foreign_order", 0.01), ("partial_then_cancel", 0.03),
                     ("partial_then_expiry", 0.03)):
        if frac(merged, "sim", cls) < lim:
            return f"sim: class {cls} below {lim:.0%} of runs"
    return None
