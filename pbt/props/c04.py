"""C04 -- order accounting and lifetime: nothing lost, no fill after cancel or expiry."""
import warnings

from hypothesis import strategies as st

from ..common import CaseInfo, Violation
from ..market_machine import market_cases
from ._market_common import frac, fuzz_part, make_check

warnings.simplefilter("ignore")
from pams.order import LIMIT_ORDER, MARKET_ORDER, Order  # noqa: E402

ID = "C04"
RULE = ("(machine) histories as for C01 plus re-submission of accepted order objects, orders naming another market, "
        "cancels of resting / partially filled / filled / expired / already cancelled orders and every ttl; per order: "
        "accepted volume = sum of fills + volume at its first terminal record or still resting; resting volume > 0; no "
        "fill on a cancelled or expired order; depth dicts and ExpirationLogs equal the lifetime model after every op "
        "(an order leaves exactly when clock > acceptance + ttl). Non-trivial = history where an order is partially "
        "filled and then cancelled or expires, or is filled in the last step of its life. (ctor) Hypothesis over Order "
        "constructor arguments: invalid combinations raise ValueError, valid ones construct. (sim) whole simulations in "
        "which a scripted agent re-submits an accepted order, forges another agent's id or cancels another agent's "
        "order: the run must refuse (raise) and accept nothing.")
ASSUMPTIONS = ["thorough tier adds a coverage-guided atheris campaign over byte-decoded histories (16 processes, half from an empty corpus); its saved decoded case, not the campaign, is the reproducible unit",
               "the owner checks are made by the runner (spoofing check), the market/at-most-once checks by Market._add_order"]


def _nt(f):
    return bool(f.get("cancel_after_partial") or f.get("expire_after_partial") or f.get("filled_in_last_step_of_life"))


def _strategy(tier):
    return market_cases(max_ops=60 if tier == "quick" else 300, market_frac=2, illegal=True, pre_ticks=True)


ctor_cases = st.fixed_dictionaries({
    "market_kind": st.booleans(),
    "price": st.one_of(st.none(), st.floats(min_value=1e-6, max_value=1e6, allow_nan=False)),
    "volume": st.integers(-3, 50),
    "ttl": st.one_of(st.none(), st.integers(-3, 10)),
})


def ctor_check(case):
    valid = ((case["market_kind"] and case["price"] is None) or (not case["market_kind"] and case["price"] is not None)) \
        and case["volume"] > 0 and (case["ttl"] is None or case["ttl"] > 0)
    try:
        o = Order(agent_id=0, market_id=0, is_buy=True, kind=MARKET_ORDER if case["market_kind"] else LIMIT_ORDER,
                  volume=case["volume"], price=case["price"], ttl=case["ttl"])
    except ValueError:
        if valid:
            raise Violation("C04.ctor_rejects_valid", f"{case}")
        return CaseInfo(nontrivial=True, classes=["invalid"], sample=case)
    if not valid:
        raise Violation("C04.ctor_accepts_invalid", f"{case}")
    if o.order_id is not None or o.placed_at is not None or o.is_canceled:
        raise Violation("C04.ctor_fresh_state", "a new order must be unaccepted")
    return CaseInfo(nontrivial=True, classes=["valid"], sample=case)


PARTS = {
    "machine": {"check": make_check({"C04"}, _nt), "strategy": _strategy, "budget": {"quick": 3000, "thorough": 100000}},
    "ctor": {"check": ctor_check, "strategy": lambda tier: ctor_cases, "budget": {"quick": 2000, "thorough": 20000}},
}

def _deep_strategy(tier):
    # deep, mostly uncrossed books with many cancels from the middle (and of the best order)
    return market_cases(max_ops=60 if tier == "quick" else 300, market_frac=1, deep=True, toggles=False)


PARTS["deep"] = {"check": make_check({"C04"}, _nt), "strategy": _deep_strategy, "budget": {"quick": 2000, "thorough": 60000}}
PARTS["fuzz"] = fuzz_part("C04", {"C04"}, _nt)


def vacuity(merged, tier):
    for cls, lim in (("cancel_after_partial", 0.02), ("expire_after_partial", 0.02), ("resubmit_refused", 0.08),
                     ("foreign_refused", 0.08), ("cancel_of_dead_order", 0.08)):
        if frac(merged, "machine", cls) < lim:
            return f"class {cls} below {lim:.0%} of histories"
    return None
