"""C19 -- off-grid limit prices round to the tick grid, never more aggressively."""
import math
import random
import warnings

import numpy as np

from hypothesis import strategies as st

from ..common import CaseInfo, Violation
from ..market_machine import _call
from ..models import is_power_of_two, tick_violation

warnings.simplefilter("ignore")
from pams.market import Market  # noqa: E402
from pams.order import LIMIT_ORDER, Order  # noqa: E402

ID = "C19"
RULE = ("Each case is one market with a generated tick size (powers of two 2^-10..2^3, decimal ticks 0.1/0.01/1e-5/0.3/7, "
        "arbitrary floats in [1e-5, 50]) and up to 40 limit orders per side whose prices are on the grid (k*tick in "
        "floats and in exact arithmetic), within a few ulps of a grid point, or off the grid by a generated fraction of a "
        "tick (including prices below one tick, integer-typed prices, and the side given as bool / numpy.bool_ / int; the tick size comes from the settings or is assigned to Market.tick_size afterwards), with price/tick up to 2^40. The accepted price (OrderLog and Order) is compared in exact rational "
        "arithmetic: exact multiple -> unchanged; power-of-two tick -> exactly floor/ceil(P/T)*T; otherwise on the grid "
        "up to 2^-50 relative, never more aggressive than P by more than P*2^-50, moved by < T + P*2^-50. Non-trivial = "
        "case containing an off-grid price; distinct by hash of (tick, prices).")
RULE = RULE + (" One direct case in five drives an IndexMarket whose components trade on other grids (its own tick size decides). (events) the runs of C14's order-mistake part and of C15 judged by the same tick oracle alone: the price an event hands to the market "
               "(market price x (1 + rate); the asked price clipped into the band) is a limit price like any other and must be accepted on the grid, rounded away from aggressiveness.")
ASSUMPTIONS = ["2^-50 relative slack covers the two float roundings (quotient, product) the statement allows as 'floating-point representation of the grid'"]

DYADIC = [2.0 ** k for k in range(-10, 4)]
DECIMAL = [0.1, 0.01, 1e-5, 0.3, 7.0, 0.05, 2.5, 1e-3, 10.0, 2.0, 3.0]


@st.composite
def cases(draw):
    tick = draw(st.one_of(st.sampled_from(DYADIC), st.sampled_from(DECIMAL),
                          st.floats(min_value=1e-5, max_value=50.0, allow_nan=False)))
    n = draw(st.integers(1, 40))
    prices = []
    for _ in range(n):
        kind = draw(st.integers(0, 5))
        k = draw(st.one_of(st.integers(1, 2000), st.integers(1, 2 ** 40)))
        if kind == 0:
            p = k * tick
        elif kind == 1:
            p = k * tick
            for _ in range(draw(st.integers(1, 3))):
                p = math.nextafter(p, math.inf if draw(st.booleans()) else 0.0)
        elif kind == 2:
            p = (k + draw(st.floats(min_value=0.0, max_value=1.0, allow_nan=False))) * tick
        elif kind == 3:
            p = draw(st.floats(min_value=tick, max_value=min(tick * 2.0 ** 40, 1e12), allow_nan=False))
        elif kind == 5:
            p = draw(st.integers(1, 100000))  # an integer-typed price (as read from a JSON file or typed by a user)
        elif kind == 4 and draw(st.booleans()):
            p = tick * draw(st.floats(min_value=1e-6, max_value=0.999999, allow_nan=False))  # below one tick
        else:
            p = round(k * tick, draw(st.integers(0, 6)))  # what a decimal reader would type
        if not (p > 0) or not math.isfinite(p):
            p = tick
        prices.append([draw(st.booleans()), p, draw(st.sampled_from(["bool", "bool", "bool", "numpy", "int"]))])
    # the tick size either comes from the settings or is assigned to the (public) attribute afterwards
    case = {"tick": tick, "prices": prices, "assign_tick_after_setup": draw(st.sampled_from([None, None, 1.0, 0.5, 7.0]))}
    if draw(st.integers(0, 4)) == 0:
        # the market is an index market whose components trade on other (finer, coarser, unrelated) grids: its own tick size decides
        case["index_component_ticks"] = [draw(st.sampled_from([tick / 2, tick / 4, tick * 2, 0.5, 0.01, 1.0])) for _ in range(draw(st.integers(1, 2)))]
        case["assign_tick_after_setup"] = None
    return case


def check_case(case):
    tick = case["tick"]
    m = Market(market_id=0, prng=random.Random(0), simulator=None, name="m", logger=None)
    if case.get("index_component_ticks"):
        from pams.index_market import IndexMarket
        from pams.simulator import Simulator
        sim = Simulator(prng=random.Random(0))
        for j, ct in enumerate(case["index_component_ticks"]):
            c = Market(market_id=j + 1, prng=random.Random(j), simulator=sim, name=f"c{j}", logger=None)
            c.setup({"tickSize": ct, "marketPrice": 100.0, "outstandingShares": 10})
            sim._add_market(c)
            _call(c._update_time, next_fundamental_price=100.0)
        m = IndexMarket(market_id=0, prng=random.Random(0), simulator=sim, name="m", logger=None)
        m.setup({"tickSize": tick, "marketPrice": 100.0, "markets": [f"c{j}" for j in range(len(case["index_component_ticks"]))]})
        sim._add_market(m)
    elif case.get("assign_tick_after_setup") is not None:
        m.setup({"tickSize": case["assign_tick_after_setup"], "marketPrice": 100.0})
        m.tick_size = tick
    else:
        m.setup({"tickSize": tick, "marketPrice": 100.0})
    _call(m._update_time, next_fundamental_price=100.0)
    off = 0
    classes = set()
    for item in case["prices"]:
        is_buy, p = item[0], item[1]
        side_type = item[2] if len(item) > 2 else "bool"
        # the side as a plain bool, a numpy bool (what `rate > 0.0` yields for a numpy float) or an int
        side = {"bool": bool(is_buy), "numpy": np.bool_(is_buy), "int": int(is_buy)}[side_type]
        o = Order(agent_id=0, market_id=0, is_buy=side, kind=LIMIT_ORDER, volume=1, price=p)
        log = _call(m._add_order, o)
        msg = tick_violation(p, tick, log.price, is_buy)
        if msg:
            raise Violation("C19.tick_rounding", msg)
        if o.price != log.price:
            raise Violation("C19.order_vs_log_price", f"order carries {o.price!r}, log {log.price!r}")
        from fractions import Fraction
        if p < tick:
            classes.add("below_one_tick")
        if isinstance(p, int):
            classes.add("int_price")
        if side_type != "bool":
            classes.add("side_" + side_type)
        if Fraction(p) % Fraction(tick) != 0:
            off += 1
            classes.add("offgrid_buy" if is_buy else "offgrid_sell")
            if log.price != p:
                classes.add("moved")
        else:
            classes.add("ongrid")
    if is_power_of_two(tick):
        classes.add("exact_domain")
    if case.get("index_component_ticks"):
        classes.add("index_market")
    return CaseInfo(nontrivial=off > 0, classes=classes, steps=len(case["prices"]),
                    sample={"tick": tick, "prices": case["prices"][:8], "assign_tick_after_setup": case.get("assign_tick_after_setup")})


PARTS = {"direct": {"check": check_case, "strategy": lambda tier: cases(), "budget": {"quick": 12000, "thorough": 150000}}}


# -- prices that events compute (fat-finger price, clipped price) reach the market as limit prices too -------------------------

TICK_MARKERS = ("on-grid", "exact domain", "not on the grid", "more aggressive", "by a tick or more")


@st.composite
def _event_cases(draw, tier):
    from . import c14, c15
    if draw(st.booleans()):
        return {"family": "mistake", "case": draw(c14.mistake_cases(tier))}
    return {"family": "limit", "case": draw(c15.cases(tier))}


def _event_check(case):
    """C14's and C15's runs, judged here only by the tick oracle: the price the event hands to the market (market price x
    (1 + rate); the asked price clipped into the band) must be accepted on the grid, rounded away from aggressiveness."""
    from . import c14, c15
    try:
        info = (c14.mistake_check if case["family"] == "mistake" else c15.check_case)(case["case"])
    except Violation as v:
        if any(mk in v.message for mk in TICK_MARKERS):
            raise Violation("C19.tick_rounding_of_event_prices", f"({case['family']}) {v.message}")
        return CaseInfo(nontrivial=False, classes=["other_property_violated"], sample={"family": case["family"]})
    return CaseInfo(nontrivial=info.nontrivial, classes=[case["family"]], steps=getattr(info, "steps", 0), sample={"family": case["family"]})


PARTS["events"] = {"check": _event_check, "strategy": _event_cases, "budget": {"quick": 2000, "thorough": 30000}}


def vacuity(merged, tier):
    m = merged["direct"]
    n = max(1, m["evaluations"])
    for cls, lim in (("moved", 0.2), ("ongrid", 0.12), ("exact_domain", 0.06)):
        if m["classes"].get(cls, 0) / n < lim:
            return f"class {cls} below {lim:.0%}"
    return None
