"""C01 -- fills honour both limits; one price per round, set by the resting (earlier-accepted) side."""
from hypothesis import strategies as st

from ..market_machine import market_cases
from ._market_common import frac, fuzz_part, make_check

ID = "C01"
RULE = ("Hypothesis generates histories (<=60 ops quick, <=300 thorough) of limit/market submissions (on- and off-grid "
        "prices, volumes 1..10^4, ttl None/1..5), cancels, clock steps, running on/off and matching rounds against one "
        "real Market, in continuous mode (round after every submit/cancel) or batch mode (crossed book cleared by one "
        "round). Non-trivial = history containing a round with >=2 fills over >=2 price levels, or a round matching a "
        "market order, or an equal-acceptance-time last pair; distinct by hash of the op list.")
ASSUMPTIONS = ["thorough tier adds a coverage-guided atheris campaign over byte-decoded histories (16 processes, half from an empty corpus); its saved decoded case, not the campaign, is the reproducible unit",
               "matching rounds are only attempted while the market is running (as the runner does)",
               "prices are positive floats; tick sizes from a fixed list or arbitrary floats in [1e-3, 20]"]


def _nt(f):
    return bool(f.get("round_multi_level") or f.get("round_with_market_order") or f.get("round_equal_time_tie"))


def _strategy(tier):
    return market_cases(max_ops=60 if tier == "quick" else 300, market_frac=2)


def _deep_strategy(tier):
    # deep, mostly uncrossed books with many cancels from the middle, swept by drain probes
    return market_cases(max_ops=60 if tier == "quick" else 300, market_frac=1, deep=True, toggles=False)


PARTS = {"machine": {"check": make_check({"C01"}, _nt), "strategy": _strategy,
                     "budget": {"quick": 3000, "thorough": 60000}},
         "deep": {"check": make_check({"C01"}, _nt), "strategy": _deep_strategy, "budget": {"quick": 2000, "thorough": 40000}}}

@st.composite
def _bigsweep_cases(draw, tier):
    """one round that matches MORE pairs than any internal chunk size (100): n one-lot orders at n distinct prices entered while no
    round runs, then one order that sweeps all of them -- the whole round still carries one price"""
    n = draw(st.sampled_from([101, 120, 150, 205]))
    k = draw(st.sampled_from([1, 7, 11, 13]))          # arrival order: i*k mod n
    sweep_buy = draw(st.booleans())
    ops = []
    for i in range(n):
        lvl = (i * k) % n
        ops.append(["L", not sweep_buy, 100.0 + lvl if sweep_buy else 400.0 - lvl, 1, None, 1 + i % 3])
    ops.append(["L", sweep_buy, 100.0 + n + 5 if sweep_buy else 400.0 - n - 5, n + draw(st.integers(0, 3)), None, 0])
    ops.append(["X"])
    return {"tick": 1.0, "p0": 250.0, "continuous": False, "running0": True, "ops": ops}


PARTS["bigsweep"] = {"check": make_check({"C01"}, lambda f: bool(f.get("multi_fill_round"))), "strategy": _bigsweep_cases, "budget": {"quick": 64, "thorough": 640}}
PARTS["fuzz"] = fuzz_part("C01", {"C01"}, _nt)


def vacuity(merged, tier):
    if frac(merged, "machine", "rounds_with_fills") < 0.12:
        return "too few histories contain a round with fills"
    if frac(merged, "machine", "round_with_market_order") < 0.02:
        return "too few histories match a market order"
    return None
