"""C12 -- fundamentals: positive geometric walk with configured drift, volatility and correlation."""
import math
import random
import warnings

import numpy as np
from hypothesis import strategies as st

from ..common import CaseInfo, PamsCrash, Violation, classify_exception

warnings.simplefilter("ignore")
from pams.fundamentals import Fundamentals  # noqa: E402
from pams.market import Market  # noqa: E402
from pams.simulator import Simulator  # noqa: E402

ID = "C12"
RULE = ("(runner) markets configured with marketPrice, fundamentalPrice or both through the real SequentialRunner: the fundamental series starts at fundamentalPrice if given, else marketPrice, and follows the closed form at zero volatility. (machine) Hypothesis generates 1-5 markets (initial 1e-3..1e6, drift +-0.01, volatility 0 or 1e-4..0.3), optional "
        "pairwise correlations from a generated factor matrix (positive definite by construction) and an op sequence over one "
        "real Fundamentals: reads of single times / time lists up to 450 steps ahead (crossing the 100-step generation "
        "chunks), change_drift / change_volatility / set_correlation / remove_correlation at a time t <= horizon, clock advances of real Markets inside a "
        "real Simulator (1-100 steps) and shocks through the real Market.change_fundamental_price at the markets' current time; "
        "correlated pairs are named in either order. Oracle: price(0) = initial, every price positive and finite, every "
        "remembered value at a time <= t of a later change is returned unchanged, and with zero volatility (or with the normal "
        "source replaced by zeros in half of the cases) the path equals level * exp(drift * dt) from the last change point (rel "
        "1e-9). Non-trivial = >=2 correlated markets with volatility and >=1 change or shock after a chunk boundary. (stats) "
        "20k-50k log-returns per case, in half of the cases measured AFTER a mid-run change of a volatility, drift or correlation (at t = 100..1000): sample mean within 6 vol/sqrt(N) of drift, sample std within 6 vol/sqrt(2N) of vol, "
        "sample correlation within 6(1-rho^2)/sqrt(N) of rho. (probe) the normal source is replaced by cyclic unit vectors so "
        "the returns expose the mixing matrix A: A A^T must equal vol*corr*vol (rel 1e-9) and the mean must equal the drift; in half of the cases up to four parameter changes are made at time 0 before anything is generated (volatility to 0 and back, drift, set / remove correlation) and the transform must reflect the final settings, a correlation that was configured and never removed included. The machine also registers late starters (add_market(start_at=k): exactly the initial value before k) and removes markets (remove_market: what the remaining markets returned stays).")
ASSUMPTIONS = ["late-starting markets (add_market(start_at=k), used by no pams caller) are generated only next to at least one registered market that runs from time 0; a Fundamentals holding nothing but late starters cannot be read before their start (np.stack of an empty list) -- outside what the property describes, not judged",
               "remove_market is judged only through its effect on the remaining markets (their returned history must stay and deterministic paths must continue)",
               "a change or shock is applied at a time t <= the largest time generated since the last change (every caller in pams respects this)",
               "the probe part substitutes Fundamentals._np_prng; if that attribute is absent the part reports itself skipped"]


def _call(fn, *a, **k):
    try:
        return fn(*a, **k)
    except Exception as e:  # noqa: BLE001
        crash = classify_exception(e)
        if crash is None:
            raise
        raise crash


class ZeroNormal:
    def standard_normal(self, size):
        return np.zeros(size)


class UnitNormal:
    """column j of every requested block is the unit vector e_(j mod k)."""

    def __init__(self):
        self.calls = 0

    def standard_normal(self, size):
        k, n = size
        out = np.zeros(size)
        for j in range(n):
            if k:
                out[j % k, j] = 1.0
        self.calls += 1
        return out


@st.composite
def market_params(draw, n, vol_positive=False):
    out = []
    for _ in range(n):
        vol = draw(st.floats(1e-4, 0.3)) if vol_positive or draw(st.booleans()) else 0.0
        out.append({"initial": draw(st.one_of(st.sampled_from([100.0, 300.0, 1.0]), st.floats(1e-3, 1e6))),
                    "drift": draw(st.one_of(st.just(0.0), st.just(0), st.floats(-0.01, 0.01))), "vol": vol})  # (0 as a Python int too)
    return out


@st.composite
def corr_matrix(draw, k):
    """a positive definite correlation matrix D^-1 B B^T D^-1 from a generated factor B = I + 0.6 U."""
    if k < 2:
        return [[1.0]]
    B = np.eye(k) + 0.6 * np.array([[draw(st.floats(-1, 1)) for _ in range(k)] for _ in range(k)])
    C = B @ B.T
    d = np.sqrt(np.diag(C))
    C = C / d[:, None] / d[None, :]
    if np.min(np.linalg.eigvalsh(C)) < 1e-4 or np.max(np.abs(C - np.eye(k))) > 0.999:
        C = np.eye(k)
    return [[float(C[i, j]) for j in range(k)] for i in range(k)]


@st.composite
def machine_cases(draw, tier):
    n = draw(st.integers(1, 5))
    markets = draw(market_params(n))
    volm = [i for i, m in enumerate(markets) if m["vol"] > 0]
    corr = draw(corr_matrix(len(volm))) if len(volm) >= 2 and draw(st.booleans()) else None
    if n >= 2 and draw(st.integers(0, 2)) == 0:
        # a market that joins later (add_market's documented start_at): constant at its initial value until then
        for m in markets[1:]:
            if draw(st.booleans()):
                m["start_at"] = draw(st.sampled_from([1, 3, 50, 100, 150]))
    n_ops = draw(st.integers(3, 25))
    ops = []
    for _ in range(n_ops):
        kind = draw(st.sampled_from(["read"] * 4 + ["adv"] * 3 + ["drift", "vol", "shock", "shock", "corr", "uncorr", "remove", "addlate"]))
        i = draw(st.integers(0, n - 1))
        if kind == "remove":
            ops.append(["remove", i])
        elif kind == "addlate":
            # a new (deterministic) series listed in mid-run, starting at the current time
            ops.append(["addlate", i, draw(st.sampled_from([50.0, 200.0, 1234.5])), draw(st.sampled_from([0.0, 0.003, -0.002]))])
        elif kind == "read":
            ds = draw(st.lists(st.sampled_from([-120, -30, -3, -1, 0, 1, 2, 5, 60, 99, 100, 101, 130]), min_size=1, max_size=4))
            ops.append(["read", i, ds, draw(st.booleans())])
        elif kind == "adv":
            ops.append(["adv", i, draw(st.sampled_from([1, 1, 2, 5, 30, 98, 100]))])
        elif kind == "drift":
            ops.append(["drift", i, draw(st.floats(-0.01, 0.01)), draw(st.floats(0, 1))])
        elif kind == "vol":
            ops.append(["vol", i, draw(st.sampled_from([0.0, 0.01, 0.2])), draw(st.floats(0, 1))])
        elif kind == "shock":
            ops.append(["shock", i, draw(st.sampled_from([0.5, 0.9, 1.1, 1.5, 2.0])), draw(st.floats(0, 1))])
        elif kind == "corr":
            ops.append(["corr", i, draw(st.integers(0, n - 1)), draw(st.sampled_from([-0.9, -0.5, 0.3, 0.8])), draw(st.floats(0, 1))])
        else:
            ops.append(["uncorr", i, draw(st.integers(0, n - 1)), draw(st.floats(0, 1))])
    return {"seed": draw(st.integers(0, 2**31 - 1)), "markets": markets, "corr": corr, "zero_noise": draw(st.booleans()), "ops": ops,
            "max_time": 230 if tier == "quick" else 450, "flip": draw(st.booleans())}


def build(case, with_markets=False):
    """the Fundamentals under test; with_markets=True builds it inside a real Simulator with one real Market per id, so that
    clock advances and shocks go through the calls pams itself makes."""
    sim = None
    if with_markets:
        sim = Simulator(prng=random.Random(case["seed"]))
        f = sim.fundamentals
    else:
        f = Fundamentals(prng=random.Random(case["seed"]))
    for i, m in enumerate(case["markets"]):
        _call(f.add_market, market_id=i, initial=m["initial"], drift=m["drift"], volatility=m["vol"], **({"start_at": m["start_at"]} if m.get("start_at") else {}))
        if sim is not None:
            mk = Market(market_id=i, prng=random.Random(i), simulator=sim, name=f"M{i}")
            mk.setup({"tickSize": 1.0, "marketPrice": m["initial"]})
            sim._add_market(mk)
    volm = [i for i, m in enumerate(case["markets"]) if m["vol"] > 0]
    pairs = {}
    if case.get("corr"):
        for a in range(len(volm)):
            for b in range(a + 1, len(volm)):
                # the pair may be named in either order
                i1, i2 = (volm[b], volm[a]) if case.get("flip") and (a + b) % 2 == 1 else (volm[a], volm[b])
                _call(f.set_correlation, market_id1=i1, market_id2=i2, corr=case["corr"][a][b])
                pairs[(i1, i2)] = case["corr"][a][b]
    if with_markets:
        return f, volm, pairs, sim
    return f, volm, pairs


def machine_check(case):
    f, volm, pairs, sim = build(case, with_markets=True)
    n = len(case["markets"])
    if case["zero_noise"]:
        if not hasattr(f, "_np_prng"):
            return CaseInfo(skipped=True, classes=["no_private_source"])
        f._np_prng = ZeroNormal()
    mem = {}
    maxt = 0
    # the markets' clock: -1 -> 0 as the runner does before the first session
    _call(sim._update_times_on_markets, sim.markets)
    T = 0
    for j, mk in enumerate(sim.markets):
        mem[(j, 0)] = mk.get_fundamental_price(0)
        if mem[(j, 0)] != case["markets"][j]["initial"]:
            raise Violation("C12.initial_value", f"market {j}: fundamental recorded at time 0 is {mem[(j, 0)]!r}, configured {case['markets'][j]['initial']!r}")
    vols = [m["vol"] for m in case["markets"]]
    drifts = [m["drift"] for m in case["markets"]]
    # closed-form segments per market: (t0, level at t0, drift from t0 on), ordered by t0
    sa = [m.get("start_at", 0) for m in case["markets"]]
    alive = [True] * n
    segs = {i: [(sa[i], case["markets"][i]["initial"], drifts[i])] for i in range(n)}
    ever_vol = [v > 0 for v in vols]
    shocked0 = set()
    n_late = 0
    flags = set()
    corr_now = dict(pairs)

    def closed(i, t):
        before = [sg for sg in segs[i] if sg[0] <= t]
        if not before:
            return case["markets"][i]["initial"]  # a market that has not started yet stays at its initial value
        t0, lvl, dr = before[-1]
        return lvl * math.exp(dr * (t - t0))

    def new_segment(i, t, lvl, dr):
        segs[i] = [sg for sg in segs[i] if sg[0] < t] + [(t, lvl, dr)]

    def deterministic(i):
        return case["zero_noise"] or not ever_vol[i]

    def corr_ok_after(setting):
        """would the correlation matrix of the volatile markets stay positive definite?"""
        ids = [i for i in range(n) if vols[i] > 0]
        if len(ids) < 2:
            return True
        M = np.eye(len(ids))
        for (a, b), c in setting.items():
            if a in ids and b in ids:
                M[ids.index(a), ids.index(b)] = M[ids.index(b), ids.index(a)] = c
        return np.min(np.linalg.eigvalsh(M)) > 1e-3

    for op in case["ops"]:
        kind, i = op[0], op[1]
        if not alive[i]:
            continue
        if kind == "remove":
            if sum(alive) < 2 or not any(alive[j] and sa[j] == 0 and j != i for j in range(n)):
                continue  # (at least one market that runs from time 0 stays registered: see ASSUMPTIONS)
            # taking a market out is not a change of the others: what they returned so far stays, and they go on as before
            _call(f.remove_market, market_id=i)
            alive[i] = False
            vols[i] = 0.0
            for key in [k for k in mem if k[0] == i]:
                del mem[key]
            flags.add("remove")
            continue
        if kind == "read":
            ts = [min(max(maxt + d, 0), case["max_time"]) for d in op[2]]
            if op[3]:
                ts = list(dict.fromkeys(ts))  # distinct times in the order drawn (ascending, descending or mixed)
            vals = _call(f.get_fundamental_prices, market_id=i, times=ts) if op[3] else [_call(f.get_fundamental_price, market_id=i, time=t) for t in ts]
            maxt = max(maxt, max(ts))
            if maxt >= 100:
                flags.add("crossed_chunk")
            for t, v in zip(ts, vals):
                if not (isinstance(v, float) and v > 0 and math.isfinite(v)):
                    raise Violation("C12.positive_finite", f"market {i} time {t}: {v!r}")
                if (i, t) in mem and mem[(i, t)] != v:
                    raise Violation("C12.history_changed", f"market {i} time {t}: was {mem[(i, t)]!r}, now {v!r}")
                mem[(i, t)] = v
                if t < sa[i] and v != case["markets"][i]["initial"]:
                    raise Violation("C12.initial_value", f"market {i} starts at {sa[i]} but its price at time {t} is {v!r}, configured initial {case['markets'][i]['initial']!r}")
                if t == 0 and i not in shocked0 and v != case["markets"][i]["initial"]:
                    raise Violation("C12.initial_value", f"market {i}: price(0) = {v!r}, configured {case['markets'][i]['initial']!r}")
                if deterministic(i):
                    want = closed(i, t)
                    if not math.isclose(v, want, rel_tol=1e-9):
                        raise Violation("C12.closed_form", f"market {i} time {t}: {v!r}, expected level*exp(drift*dt) = {want!r} (segments {segs[i]})")
            continue
        if kind == "adv":
            for _ in range(min(op[2], case["max_time"] - T)):
                _call(sim._update_times_on_markets, [mk for j, mk in enumerate(sim.markets) if alive[j]])
                T += 1
                for j, mk in enumerate(sim.markets):
                    if not alive[j]:
                        continue
                    v = mk.get_fundamental_price(T)
                    if not (v > 0 and math.isfinite(v)):
                        raise Violation("C12.positive_finite", f"market {j} time {T}: {v!r}")
                    if (j, T) in mem and mem[(j, T)] != v:
                        raise Violation("C12.history_changed", f"market {j} time {T}: a read ahead returned {mem[(j, T)]!r}, the clock advance recorded {v!r}")
                    mem[(j, T)] = v
                    if T < sa[j] and v != case["markets"][j]["initial"]:
                        raise Violation("C12.initial_value", f"market {j} starts at {sa[j]} but its price recorded at time {T} is {v!r}")
                    if deterministic(j) and not math.isclose(v, closed(j, T), rel_tol=1e-9):
                        raise Violation("C12.closed_form", f"market {j} time {T}: {v!r}, expected {closed(j, T)!r} (segments {segs[j]})")
            maxt = max(maxt, T)
            if T >= 100:
                flags.add("crossed_chunk")
            flags.add("advance")
            continue
        # parameter changes and shocks happen at the current time of the markets (what events do)
        t = T
        if kind == "drift":
            te = max(t, sa[i])
            lvl = closed(i, te) if deterministic(i) else None
            _call(f.change_drift, market_id=i, drift=op[2], time=t)
            drifts[i] = op[2]
            if lvl is not None:
                new_segment(i, te, lvl, op[2])
        elif kind == "vol":
            newv = op[2]
            trial = list(vols)
            trial[i] = newv
            if newv == 0.0 and any(i in k for k in corr_now):
                continue  # correlations are only defined between volatile markets
            _call(f.change_volatility, market_id=i, volatility=newv, time=t)
            vols[i] = newv
            if newv > 0:
                ever_vol[i] = True
        elif kind == "corr":
            j = op[2]
            if i == j or vols[i] == 0 or vols[j] == 0 or not alive[j]:
                continue
            key = (j, i) if (j, i) in corr_now else (i, j)
            trial = dict(corr_now)
            trial[key] = op[3]
            if not corr_ok_after(trial):
                continue
            _call(f.set_correlation, market_id1=i, market_id2=j, corr=op[3], time=t)
            corr_now = trial
            flags.add("corr_change")
        elif kind == "uncorr":
            j = op[2]
            key = (j, i) if (j, i) in corr_now else (i, j)
            if i == j or key not in corr_now or not alive[j]:
                continue
            trial = dict(corr_now)
            del trial[key]
            if not corr_ok_after(trial):
                continue
            _call(f.remove_correlation, market_id1=i, market_id2=j, time=t)
            corr_now = trial
        elif kind == "addlate":
            new_id = n + n_late
            n_late += 1
            _call(f.add_market, market_id=new_id, initial=op[2], drift=op[3], volatility=0.0, start_at=t)
            for dt in (0, 1, 7, 60):
                v = _call(f.get_fundamental_price, market_id=new_id, time=t + dt)
                want = op[2] * math.exp(op[3] * dt)
                if not math.isclose(v, want, rel_tol=1e-9):
                    raise Violation("C12.closed_form", f"series {new_id} listed at time {t} with initial {op[2]} and drift {op[3]} (volatility 0): value at {t}+{dt} is {v!r}, "
                                                       f"expected {want!r}")
            for u in range(0, t + 1, max(1, t // 3 or 1)):
                if _call(f.get_fundamental_price, market_id=new_id, time=u) != op[2]:
                    raise Violation("C12.initial_value", f"series {new_id} listed at time {t}: value at the earlier time {u} is not its initial value")
            flags.add("listed_late")
        elif kind == "shock":
            # the real thing: Market.change_fundamental_price at the market's current time
            if t < sa[i]:
                continue  # a price that has not started yet is not shocked
            mk = sim.markets[i]
            cur = mk.get_fundamental_price(t)
            if (i, t) in mem and mem[(i, t)] != cur:
                raise Violation("C12.history_changed", f"market {i} time {t}: was {mem[(i, t)]!r}, now {cur!r}")
            before = {(j, u): f.get_fundamental_price(j, u) for j in range(n) if alive[j] for u in range(max(0, t - 3), t + 1) if (j, u) != (i, t)}
            _call(mk.change_fundamental_price, scale=op[2])
            new = cur * op[2]
            got = mk.get_fundamental_price(t)
            if not math.isclose(got, new, rel_tol=1e-12) or not math.isclose(_call(f.get_fundamental_price, market_id=i, time=t), new, rel_tol=1e-12):
                raise Violation("C12.shock_level", f"market {i} shocked by {op[2]} at {t}: recorded {got!r}, expected {new!r}")
            for (j, u), v in before.items():
                if f.get_fundamental_price(j, u) != v:
                    raise Violation("C12.history_changed", f"a shock of market {i} at time {t} altered market {j} at time {u}")
            new = got
            mem[(i, t)] = new
            if t == 0:
                shocked0.add(i)
            if deterministic(i):
                new_segment(i, t, new, drifts[i])
            flags.add("shock")
        # a change at t forgets what was generated after t (for every market: all are regenerated from t on)
        for key in [k for k in mem if k[1] > t]:
            del mem[key]
        for j in range(n):
            if deterministic(j) and alive[j]:
                te = max(t, sa[j])
                lvl_j = closed(j, te)
                segs[j] = [sg for sg in segs[j] if sg[0] <= te]
                if segs[j][-1][2] != drifts[j]:
                    # regeneration from t uses the parameters in force now
                    new_segment(j, te, lvl_j, drifts[j])
        if t >= 100:
            flags.add("change_after_chunk")
        maxt = t
        flags.add("change")
        if t > 0:
            flags.add("change_after_start")
    nt = len([v for v in vols if v > 0]) >= 2 and bool(corr_now) and "change_after_chunk" in flags
    return CaseInfo(nontrivial=nt, classes=sorted(flags) + (["zero_noise"] if case["zero_noise"] else []) + (["correlated"] if corr_now else []),
                    steps=len(case["ops"]), sample={"markets": case["markets"], "corr": case["corr"], "ops": case["ops"][:10], "zero_noise": case["zero_noise"]})


# -- statistics ------------------------------------------------------------------------------------------------------


@st.composite
def stats_cases(draw, tier):
    n = draw(st.integers(1, 3))
    markets = draw(market_params(n, vol_positive=True))
    for m in markets:
        m["vol"] = draw(st.sampled_from([0.001, 0.01, 0.05, 0.2]))
        m["initial"] = draw(st.sampled_from([100.0, 300.0, 5.0]))
        m["drift"] = draw(st.sampled_from([0.0, 0, 0.0005, -0.001, 0.002]))
    corr = draw(corr_matrix(n)) if n >= 2 else None
    change = None
    if draw(st.booleans()):
        # parameters changed in mid-run (after at least one generated chunk): the moments AFTER the change are tested
        kind = draw(st.sampled_from(["vol", "vol", "drift", "corr", "shock", "shock"] if n >= 2 else ["vol", "vol", "drift", "shock"]))
        i = draw(st.integers(0, n - 1))
        at = draw(st.sampled_from([100, 150, 250, 1000]))
        if kind == "vol":
            change = {"kind": "vol", "market": i, "value": draw(st.sampled_from([0.002, 0.02, 0.1])), "at": at}
        elif kind == "drift":
            change = {"kind": "drift", "market": i, "value": draw(st.sampled_from([0.003, -0.002, 0.0, 0])), "at": at}
        elif kind == "shock":
            # a price shock through the real Market.change_fundamental_price: moments and correlations of ALL markets after it
            change = {"kind": "shock", "market": i, "value": draw(st.sampled_from([0.7, 1.2, 2.0])), "at": draw(st.sampled_from([30, 100, 150]))}
        else:
            change = {"kind": "corr", "market": 0, "other": 1, "value": draw(st.sampled_from([-0.6, 0.0, 0.7])), "at": at}
    return {"seed": draw(st.integers(0, 2**31 - 1)), "markets": markets, "corr": corr, "N": 20000 if tier == "quick" else 50000,
            "chunked": draw(st.booleans()), "change": change, "flip": draw(st.booleans())}


def stats_check(case):
    sim = None
    if (case.get("change") or {}).get("kind") == "shock":
        f, volm, pairs, sim = build(case, with_markets=True)
    else:
        f, volm, pairs = build(case)
    N = case["N"]
    n = len(case["markets"])
    series = []
    ch = case.get("change")
    markets = [dict(m) for m in case["markets"]]
    t0 = 0
    if ch is not None:
        t0 = ch["at"]
        if ch["kind"] == "shock":
            for _ in range(t0 + 1):
                _call(sim._update_times_on_markets, sim.markets)  # clocks -1 -> t0, as the runner advances them
        before = [_call(f.get_fundamental_prices, market_id=i, times=range(t0 + 1)) for i in range(n)]
        if ch["kind"] == "shock":
            _call(sim.markets[ch["market"]].change_fundamental_price, scale=ch["value"])
            before[ch["market"]][t0] *= ch["value"]
        elif ch["kind"] == "vol":
            if ch["value"] == markets[ch["market"]]["vol"]:
                ch = None
            else:
                _call(f.change_volatility, market_id=ch["market"], volatility=ch["value"], time=t0)
                markets[ch["market"]]["vol"] = ch["value"]
        elif ch["kind"] == "drift":
            _call(f.change_drift, market_id=ch["market"], drift=ch["value"], time=t0)
            markets[ch["market"]]["drift"] = ch["value"]
        else:
            key = (1, 0) if (1, 0) in pairs else (0, 1)
            trial = dict(pairs)
            trial[key] = ch["value"]
            M = np.eye(n)
            for (a, b), c in trial.items():
                M[a, b] = M[b, a] = c
            if np.min(np.linalg.eigvalsh(M)) < 1e-3:
                ch = None
            else:
                if ch["value"] == 0.0 and key in pairs:
                    _call(f.remove_correlation, market_id1=0, market_id2=1, time=t0)
                    trial.pop(key)
                elif ch["value"] != 0.0:
                    _call(f.set_correlation, market_id1=0, market_id2=1, corr=ch["value"], time=t0)
                else:
                    trial.pop(key, None)
                pairs = trial
        if ch is not None:
            after = [_call(f.get_fundamental_prices, market_id=i, times=range(t0 + 1)) for i in range(n)]
            if ch["kind"] == "shock":
                if not all(math.isclose(x, y, rel_tol=1e-12) for a_, b_ in zip(after, before) for x, y in zip(a_, b_)):
                    raise Violation("C12.history_changed", f"a shock of market {ch['market']} at time {t0} altered other values at times <= {t0}")
            elif after != before:
                raise Violation("C12.history_changed", f"a {ch['kind']} change at time {t0} altered values at times <= {t0}")
    case = dict(case, markets=markets)
    if case["chunked"]:
        for t in range(t0, t0 + N + 1, 997):
            _call(f.get_fundamental_price, market_id=0, time=t)
    for i in range(n):
        series.append(np.array(_call(f.get_fundamental_prices, market_id=i, times=range(t0, t0 + N + 1))))
    rets = [np.diff(np.log(s)) for s in series]
    for i, m in enumerate(case["markets"]):
        if not np.all(series[i] > 0) or not np.all(np.isfinite(series[i])):
            raise Violation("C12.positive_finite", f"market {i}")
        if t0 == 0 and series[i][0] != m["initial"]:
            raise Violation("C12.initial_value", f"market {i}")
        mean, std = float(np.mean(rets[i])), float(np.std(rets[i], ddof=1))
        if abs(mean - m["drift"]) > 6 * m["vol"] / math.sqrt(N):
            raise Violation("C12.drift_is_mean_log_return", f"market {i}: mean log-return {mean!r} over {N} steps, configured drift {m['drift']} "
                                                            f"(6 sigma = {6 * m['vol'] / math.sqrt(N)!r}, vol {m['vol']})")
        if abs(std - m["vol"]) > 6 * m["vol"] / math.sqrt(2 * N):
            raise Violation("C12.volatility_is_std_log_return", f"market {i}: std of log-returns {std!r}, configured {m['vol']} (6 sigma = {6 * m['vol'] / math.sqrt(2 * N)!r})")
    for (a, b), rho in pairs.items():
        r = float(np.corrcoef(rets[a], rets[b])[0, 1])
        if abs(r - rho) > 6 * (1 - rho * rho) / math.sqrt(N) + 1e-3:
            raise Violation("C12.correlation", f"markets {a},{b}: sample correlation {r!r}, configured {rho!r}")
    if not pairs and n >= 2:
        r = float(np.corrcoef(rets[0], rets[1])[0, 1])
        if abs(r) > 6 / math.sqrt(N):
            raise Violation("C12.correlation", f"uncorrelated markets 0,1 show sample correlation {r!r}")
    return CaseInfo(nontrivial=True, classes=(["correlated"] if pairs else ["uncorrelated"]) + ([f"change_{ch['kind']}"] if ch is not None else []), steps=N,
                    sample={"markets": case["markets"], "corr": case["corr"], "N": N, "seed": case["seed"], "change": ch})


# -- algebraic probe --------------------------------------------------------------------------------------------------


@st.composite
def probe_cases(draw, tier):
    n = draw(st.integers(1, 5))
    markets = draw(market_params(n))
    volm = [i for i, m in enumerate(markets) if m["vol"] > 0]
    corr = draw(corr_matrix(len(volm))) if len(volm) >= 2 else None
    # parameter changes made before anything is generated (time 0): the transform must reflect the FINAL settings, and a
    # correlation that was configured and never removed stays configured (also across volatility 0 -> v)
    pre = []
    focus = (draw(st.integers(0, n - 1)), draw(st.integers(0, n - 1)))  # most correlation operations hit one pair, named in either order
    for _ in range(draw(st.integers(0, 6)) if draw(st.booleans()) else 0):
        kind = draw(st.sampled_from(["vol0", "vol", "vol", "drift", "corr", "corr", "corr", "uncorr"]))
        i = draw(st.integers(0, n - 1))
        if kind in ("corr", "uncorr") and focus[0] != focus[1] and draw(st.integers(0, 2)) > 0:
            a, b = focus if draw(st.booleans()) else focus[::-1]
            pre.append(["corr", a, b, draw(st.sampled_from([-0.8, -0.4, 0.3, 0.7]))] if kind == "corr" else ["uncorr", a, b])
            continue
        if kind == "vol0":
            pre.append(["vol", i, 0.0])
        elif kind == "vol":
            pre.append(["vol", i, draw(st.sampled_from([0.01, 0.05, 0.2]))])
        elif kind == "drift":
            pre.append(["drift", i, draw(st.sampled_from([0.0, 0.001, -0.002]))])
        elif kind == "corr":
            pre.append(["corr", i, draw(st.integers(0, n - 1)), draw(st.sampled_from([-0.8, -0.4, 0.3, 0.7]))])
        else:
            pre.append(["uncorr", i, draw(st.integers(0, n - 1))])
    return {"seed": draw(st.integers(0, 2**31 - 1)), "markets": markets, "corr": corr, "start": draw(st.sampled_from([0, 0, 95, 100, 150])),
            "flip": draw(st.booleans()), "pre": pre}


def _pd(vols, pairs):
    ids = [i for i, v in enumerate(vols) if v > 0]
    if len(ids) < 2:
        return True
    M = np.eye(len(ids))
    for (a, b), c in pairs.items():
        if a in ids and b in ids:
            M[ids.index(a), ids.index(b)] = M[ids.index(b), ids.index(a)] = c
    return np.min(np.linalg.eigvalsh(M)) > 1e-3


def probe_check(case):
    f, volm, pairs = build(case)
    if not hasattr(f, "_np_prng"):
        return CaseInfo(skipped=True, classes=["no_private_source"])
    stub = UnitNormal()
    f._np_prng = stub
    n = len(case["markets"])
    markets = [dict(m) for m in case["markets"]]
    applied = 0
    for op in case.get("pre", []):
        kind, i = op[0], op[1]
        vols = [m["vol"] for m in markets]
        if kind == "vol":
            trial = list(vols)
            trial[i] = op[2]
            if not _pd(trial, pairs):
                continue
            _call(f.change_volatility, market_id=i, volatility=op[2])
            markets[i]["vol"] = op[2]
        elif kind == "drift":
            _call(f.change_drift, market_id=i, drift=op[2])
            markets[i]["drift"] = op[2]
        elif kind == "corr":
            j = op[2]
            if i == j or vols[i] == 0 or vols[j] == 0:
                continue
            key = (j, i) if (j, i) in pairs else (i, j)
            trial = dict(pairs)
            trial[key] = op[3]
            if not _pd(vols, trial) or not _pd([1.0] * n, trial):
                continue
            _call(f.set_correlation, market_id1=i, market_id2=j, corr=op[3])
            pairs = trial
        else:
            j = op[2]
            key = (j, i) if (j, i) in pairs else (i, j)
            if i == j or key not in pairs:
                continue
            trial = {k_: v for k_, v in pairs.items() if k_ != key}
            if not _pd(vols, trial) or not _pd([1.0] * n, trial):
                continue  # (taking one pair out of a correlation structure can leave a matrix that is no correlation matrix at all)
            _call(f.remove_correlation, market_id1=i, market_id2=j)
            pairs = trial
        applied += 1
    case = dict(case, markets=markets)
    volm = [i for i, m in enumerate(markets) if m["vol"] > 0]
    k = len(volm)
    T = max(k, 1) * 2 + case["start"] + 100
    paths = [_call(f.get_fundamental_prices, market_id=i, times=range(T + 1)) for i in range(n)]
    if stub.calls == 0:
        return CaseInfo(skipped=True, classes=["source_not_used"])
    # every generated block starts at column 0, blocks are 100 long: step s (return from s to s+1) uses column s % 100
    A = np.zeros((k, k))
    for r, i in enumerate(volm):
        for c in range(k):
            s = c  # first block, column c -> unit vector e_c
            A[r, c] = math.log(paths[i][s + 1] / paths[i][s]) - case["markets"][i]["drift"]
    want = np.zeros((k, k))
    for r, i in enumerate(volm):
        for c, j in enumerate(volm):
            rho = 1.0 if i == j else pairs.get((i, j), pairs.get((j, i), 0.0))
            want[r, c] = case["markets"][i]["vol"] * case["markets"][j]["vol"] * rho
    got = A @ A.T
    if k and not np.allclose(got, want, rtol=1e-7, atol=1e-12):
        raise Violation("C12.covariance_of_returns", f"the return transform gives covariance {got.tolist()}, configured vol*corr*vol = {want.tolist()}")
    for i, m in enumerate(case["markets"]):
        if m["vol"] == 0:
            for t in (1, 50, T):
                want_p = m["initial"] * math.exp(m["drift"] * t)
                if not math.isclose(paths[i][t], want_p, rel_tol=1e-9):
                    raise Violation("C12.closed_form", f"zero-volatility market {i} at {t}: {paths[i][t]!r} expected {want_p!r}")
        else:
            # over one full cycle of k unit vectors the summed return is k*drift + sum of row r of A
            r = volm.index(i)
            s0 = case["start"] - case["start"] % 1
            cyc = sum(math.log(paths[i][s + 1] / paths[i][s]) for s in range(0, k))
            if not math.isclose(cyc, k * m["drift"] + float(np.sum(A[r])), rel_tol=1e-9, abs_tol=1e-12):
                raise Violation("C12.drift_is_mean_log_return", f"market {i}")
    return CaseInfo(nontrivial=k >= 2 and bool(pairs), classes=[f"k{k}"] + (["correlated"] if pairs else []) + (["pre_changes"] if applied else []), steps=T,
                    sample={"markets": case["markets"], "corr": case["corr"], "A": A.tolist()})


# -- through the runner: which configured value is the initial one --------------------------------------------------------


@st.composite
def runner_cases(draw, tier):
    n = draw(st.integers(1, 3))
    cfg = {"simulation": {"markets": [f"M{i}" for i in range(n)], "agents": ["A"],
                          "sessions": [{"sessionName": 0, "iterationSteps": draw(st.integers(1, 12)), "withOrderPlacement": False, "withOrderExecution": False,
                                        "withPrint": False}]},
           "A": {"class": "TestAgent", "numAgents": 1, "markets": ["M0"], "cashAmount": 100, "assetVolume": 1}}
    for i in range(n):
        m = {"class": "Market", "tickSize": 1.0}
        keys = draw(st.sampled_from(["both", "both", "market", "fundamental"]))
        if keys in ("both", "market"):
            m["marketPrice"] = draw(st.sampled_from([300.0, 100, 55.5]))
        if keys in ("both", "fundamental"):
            m["fundamentalPrice"] = draw(st.sampled_from([400.0, 120, 55.5, 300.0]))
        if draw(st.booleans()):
            m["fundamentalDrift"] = draw(st.sampled_from([0.001, -0.002, 0]))
        if draw(st.integers(0, 3)) == 0:
            m["fundamentalVolatility"] = draw(st.sampled_from([0.01, 0.1]))
        cfg[f"M{i}"] = m
    return {"config": cfg, "seed": draw(st.integers(0, 2**31 - 1))}


def runner_check(case):
    import copy

    from pams.logs.base import Logger
    from pams.runners.sequential import SequentialRunner

    r = SequentialRunner(settings=copy.deepcopy(case["config"]), prng=random.Random(case["seed"]), logger=Logger())
    _call(r._setup)
    _call(r._run)
    both = False
    for m in r.simulator.markets:
        c = case["config"][m.name]
        init = float(c["fundamentalPrice"]) if "fundamentalPrice" in c else float(c["marketPrice"])
        both = both or ("fundamentalPrice" in c and "marketPrice" in c and c["fundamentalPrice"] != c["marketPrice"])
        series = m.get_fundamental_prices()
        if series[0] != init:
            raise Violation("C12.initial_value", f"market {m.name} configured {c}: fundamental at time 0 is {series[0]!r}, expected {init!r}")
        if c.get("fundamentalVolatility", 0.0) == 0.0:
            for t, v in enumerate(series):
                want = init * math.exp(float(c.get("fundamentalDrift", 0.0)) * t)
                if not math.isclose(v, want, rel_tol=1e-9):
                    raise Violation("C12.closed_form", f"market {m.name} configured {c}: fundamental at {t} is {v!r}, expected {want!r}")
        elif not all(v > 0 and math.isfinite(v) for v in series):
            raise Violation("C12.positive_finite", f"market {m.name}")
    return CaseInfo(nontrivial=both, classes=["both_prices_given"] if both else [], sample=case["config"])


PARTS = {
    "runner": {"check": runner_check, "strategy": runner_cases, "budget": {"quick": 300, "thorough": 6000}},
    "machine": {"check": machine_check, "strategy": machine_cases, "budget": {"quick": 3000, "thorough": 40000}},
    "stats": {"check": stats_check, "strategy": stats_cases, "budget": {"quick": 96, "thorough": 960}},
    "probe": {"check": probe_check, "strategy": probe_cases, "budget": {"quick": 1600, "thorough": 24000}},
}


def vacuity(merged, tier):
    m = merged["machine"]
    n = max(1, m["evaluations"])
    for cls, lim in (("crossed_chunk", 0.2), ("change_after_chunk", 0.08), ("shock", 0.2), ("zero_noise", 0.12), ("correlated", 0.06)):
        if m["classes"].get(cls, 0) / n < lim:
            return f"machine: class {cls} below {lim:.0%}"
    if merged["probe"]["skipped"] == merged["probe"]["evaluations"]:
        return None  # private attribute gone: the probe part reports itself skipped; statistics alone decide
    return None
