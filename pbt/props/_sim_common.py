"""shared plumbing of the kind-C (simulation harness) properties."""
from typing import Any, Callable, Dict, Optional

from ..common import CaseInfo
from ..oracles import Analysis
from ..simharness import run_case


def summarize(case) -> Dict[str, Any]:
    cfg = case["config"]
    sim = cfg["simulation"]
    return {
        "seed": case["seed"],
        "markets": {m: {k: v for k, v in cfg[m].items() if k in ("class", "tickSize", "marketPrice", "markets", "outstandingShares")} for m in sim["markets"]},
        "agents": {a: {"class": cfg[a].get("class", cfg[a].get("extends")), "n": cfg[a].get("numAgents"), "markets": cfg[a].get("markets"),
                       "first_program": (cfg[a].get("scripts") or [None])[0]} for a in sim["agents"]},
        "sessions": [{k: v for k, v in s.items() if k != "withPrint"} for s in sim["sessions"]],
        "events": {e: cfg[e] for s in sim["sessions"] for e in s.get("events", [])},
    }


def frac(merged, part, cls) -> float:
    m = merged[part]
    return m["classes"].get(cls, 0) / max(1, m["evaluations"])
