"""C06 -- one lock-step clock; no access to the future; recorded history never changes."""
from hypothesis import strategies as st

from ..common import CaseInfo, Violation
from ..oracles import Analysis
from ..simharness import GETN, IndexMarket, run_case
from ..strategies import program_strategy, spec_strategy
from ._sim_common import frac, summarize

ID = "C06"
RULE = ("(one configuration in four contains a zero-step session; the clock is also read at every SessionBegin / SessionEnd record: the session's first time, then the next session's first time) (index markets are also asked compute_fundamental_index / compute_market_index for future times; one configuration in six has an index of indices) Hypothesis generates session lists whose cumulative lengths straddle 99/100/101 and 199/200/201 (<=230 steps quick, "
        "<=450 thorough), 1-3 markets plus an optional index market, scripted agents, a fundamental price shock, optionally "
        "a trading halt rule and (one run in three) a user event that changes a drift in mid-run. A probe event runs before every market step: every single-time getter is asked for now+1 and "
        "now+k (k in 2..250), every series getter for [0, now+k], the index getters for now+1 -- each must refuse (raise); the full series for times < now is compared (None/NaN-aware, exactly) with the snapshot of the "
        "previous step. From the trace: all markets report one time at every observation, step i reads time i, sessions span "
        "exactly iterationSteps steps starting at Session.session_start_time. Non-trivial = run crossing a 100-step chunk "
        "boundary with >=1 fill before and after it.")
ASSUMPTIONS = ["negative time indexes are outside the property (they never name a future value)"]

OPTS = {"probe_series": True}


@st.composite
def cases(draw, tier):
    limit = 230 if tier == "quick" else 450
    total = draw(st.sampled_from([150, 101, 201, 100, 99, 102, 199, 200, 230, 40, 5] + ([299, 300, 301, 401, 450] if limit > 230 else [])))
    total = min(total, limit)
    nm = draw(st.integers(1, 3))
    names = [f"M{i}" for i in range(nm)]
    cfg = {"simulation": {"markets": list(names), "agents": ["A0"], "sessions": []}}
    for n in names:
        cfg[n] = {"class": "Market", "tickSize": draw(st.sampled_from([1.0, 0.5, 0.01])), "marketPrice": draw(st.sampled_from([100.0, 300.0])),
                  "outstandingShares": draw(st.sampled_from([100, 300])), "fundamentalVolatility": draw(st.sampled_from([0.0, 0.01])),
                  "fundamentalDrift": draw(st.sampled_from([0.0, 0.001]))}
    allm = list(names)
    if nm >= 2 and draw(st.booleans()):
        cfg["IDX"] = {"class": "IndexMarket", "tickSize": 1.0, "marketPrice": 100.0, "markets": names[:2]}
        if nm == 3 and draw(st.booleans()):
            cfg["simulation"]["markets"].insert(2, "IDX")  # listed before a plain market it does not contain
        else:
            cfg["simulation"]["markets"].append("IDX")
        allm.append("IDX")
        if draw(st.integers(0, 2)) == 0:
            # an index of indices: ticks after the index it contains, which ticks after the spot markets
            cfg["IDX"]["outstandingShares"] = 50
            cfg["IDX2"] = {"class": "IndexMarket", "tickSize": 1.0, "marketPrice": 100.0, "markets": ["IDX", names[-1]]}
            cfg["simulation"]["markets"].append("IDX2")
            allm.append("IDX2")
    spec = spec_strategy(offs=[-2, -1, 0, 1, 2], own_cancel=False, n_mi=2, market_orders=False)
    cfg["A0"] = {"class": "VScriptedAgent", "numAgents": draw(st.integers(2, 4)), "markets": allm, "assetVolume": 10, "cashAmount": 1000,
                 "scripts": draw(st.lists(program_strategy(spec, max_actions=6), min_size=1, max_size=3))}
    # a background pair that keeps trading on every market so that fills exist on both sides of a chunk boundary
    cfg["B0"] = {"class": "VScriptedAgent", "numAgents": 2, "markets": allm, "assetVolume": 10, "cashAmount": 1000,
                 "scripts": [[[["L", i, True, 1, 1, 3]] for i in range(len(allm))] + [[["L", i, False, -1, 1, 3]] for i in range(len(allm))]]}
    cfg["simulation"]["agents"].append("B0")
    cfg["SNAP"] = {"class": "VSnapEvent", "hooks": [["market", True, None, None, None], ["market", False, None, None, None]]}
    if draw(st.integers(0, 2)) == 0:
        # a user-written event that changes the drift of a fundamental process in mid-run (with the method's default time, or now)
        cfg["SNAP"]["fundamentalChange"] = {"at": draw(st.integers(1, max(1, min(total - 1, 60)))), "market": draw(st.sampled_from(names)),
                                            "drift": draw(st.sampled_from([0.01, -0.005])), "now": draw(st.booleans())}
    events = ["SNAP"]
    if draw(st.booleans()):
        cfg["SH"] = {"class": "FundamentalPriceShock", "target": draw(st.sampled_from(names)), "triggerTime": draw(st.integers(0, max(0, total - 1))),
                     "priceChangeRate": draw(st.sampled_from([0.1, -0.05])), "shockTimeLength": draw(st.integers(1, 3))}
        events.append("SH")
    if draw(st.integers(0, 3)) == 0:
        cfg["HALT"] = {"class": "TradingHaltRule", "targetMarkets": [names[0]], "triggerChangeRate": 0.02, "haltingTimeLength": draw(st.integers(1, 5))}
        events.append("HALT")
    rem = total
    first = True
    while rem > 0:
        n = min(rem, draw(st.sampled_from([100, 99, 101, 50, 130, 2, 1])))
        rem -= n
        ses = {"sessionName": len(cfg["simulation"]["sessions"]), "iterationSteps": n, "withOrderPlacement": draw(st.sampled_from([True, True, True, False])),
               "withOrderExecution": draw(st.sampled_from([True, True, False])), "withPrint": False, "maxNormalOrders": draw(st.integers(1, 3))}
        if first:
            ses["events"] = events
            first = False
        cfg["simulation"]["sessions"].append(ses)
    if draw(st.integers(0, 3)) == 0:
        # a session of zero steps somewhere (a break): it begins and ends at the same clock reading and moves nothing
        at = draw(st.integers(0, len(cfg["simulation"]["sessions"])))
        brk = {"sessionName": 0, "iterationSteps": 0, "withOrderPlacement": True, "withOrderExecution": True, "withPrint": False, "maxNormalOrders": 1}
        if at == 0:
            brk["events"] = cfg["simulation"]["sessions"][0].pop("events")
        cfg["simulation"]["sessions"].insert(at, brk)
        for i_, s_ in enumerate(cfg["simulation"]["sessions"]):
            s_["sessionName"] = i_
    return {"config": cfg, "seed": draw(st.integers(0, 2**31 - 1))}


def check_case(case):
    res = run_case(case, OPTS)
    tr = res.trace
    if tr.errs:
        kind, msg = tr.errs[0]
        raise Violation(f"C06.{kind}", msg)
    A = Analysis(case, res)
    sim = A.sim
    # one clock
    for i, (k, kw) in enumerate(A.items):
        ts = kw.get("times") if isinstance(kw, dict) else None
        if k in ("log.write", "log.bulk") and type(kw["log"]).__name__ == "ExpirationLog":
            continue  # written in the middle of the clock advance, market by market: a transient, not an observation point
        if ts is not None and len(set(ts)) != 1:
            raise Violation("C06.one_clock", f"markets report different times {ts} at trace item {i} ({k})")
    for i, s in enumerate(A.steps):
        if s["t"] != i:
            raise Violation("C06.clock_advances_by_one", f"step number {i} reads time {s['t']}")
    if len(A.steps) != A.total_steps:
        raise Violation("C06.session_lengths", f"{len(A.steps)} steps executed, sessions configure {A.total_steps}")
    start = 0
    for sc, ses in zip(A.sess_cfg, sim.sessions):
        mine = [s for s in A.steps if s["session"] is ses]
        if len(mine) != sc["iterationSteps"]:
            raise Violation("C06.session_lengths", f"session {ses.session_id} ran {len(mine)} steps, configured {sc['iterationSteps']}")
        if ses.session_start_time != start or (mine and mine[0]["t"] != start):
            raise Violation("C06.session_start", f"session {ses.session_id}: start time {ses.session_start_time}, first step {mine[0]['t'] if mine else None}, expected {start}")
        start += sc["iterationSteps"]
    # the clock as seen at the session boundaries (begin / end records, session hooks): the session's first time, then the next one's
    starts, acc = {}, 0
    for sc, ses in zip(A.sess_cfg, sim.sessions):
        starts[ses.session_id] = (acc, acc + sc["iterationSteps"])
        acc += sc["iterationSteps"]
    for i, (k, kw) in enumerate(A.items):
        if k == "log.write" and type(kw["log"]).__name__ in ("SessionBeginLog", "SessionEndLog"):
            sid = kw["log"].session.session_id
            want = starts[sid][0 if type(kw["log"]).__name__ == "SessionBeginLog" else 1]
            if set(kw["times"]) != {want}:
                raise Violation("C06.session_start", f"{type(kw['log']).__name__} of session {sid}: markets read {kw['times']}, the session "
                                                     f"{'begins' if want == starts[sid][0] else 'ends'} at {want}")
    final = sim.markets[0].get_time()
    if final != A.total_steps:
        raise Violation("C06.final_clock", f"clock ends at {final}, expected {A.total_steps}")
    # the last snapshot (taken before the last step) against the final series
    for m in sim.markets:
        old = tr.prev_series.get(m.market_id)
        if old is None:
            continue
        for g in GETN:
            cur = getattr(m, g)(range(len(old[g])))
            for j, (a, b) in enumerate(zip(old[g], cur)):
                if not (a == b or (a != a and b != b)):
                    raise Violation("C06.history_changed", f"{g}[{j}] was {a!r}, is {b!r} at the end (market {m.market_id})")
        for g in GETN:
            try:
                getattr(m, g)([final + 1])
            except Exception:  # noqa: BLE001
                pass
            else:
                raise Violation("C06.future_allowed", f"{g}([{final + 1}]) after the run")
    fills_t = [l.time for _, l in A.fills]
    crossed = A.total_steps > 100 and any(t < 100 for t in fills_t) and any(t >= 100 for t in fills_t)
    classes = []
    if A.total_steps > 100:
        classes.append("crosses_100")
    if A.total_steps > 200:
        classes.append("crosses_200")
    if fills_t:
        classes.append("fills")
    if tr.counters.get("fundamental_changes"):
        classes.append("fundamental_parameter_changed")
    return CaseInfo(nontrivial=crossed, classes=classes, steps=A.total_steps,
                    sample={"sessions": [s["iterationSteps"] for s in A.sess_cfg], "markets": case["config"]["simulation"]["markets"],
                            "future_probes_refused": tr.counters.get("future_refused", 0), "fills": len(fills_t), "seed": case["seed"]})


PARTS = {"sim": {"check": check_case, "strategy": cases, "budget": {"quick": 800, "thorough": 6000}}}


def vacuity(merged, tier):
    for cls, lim in (("crosses_100", 0.16), ("crosses_200", 0.04), ("fills", 0.2)):
        if frac(merged, "sim", cls) < lim:
            return f"class {cls} below {lim:.0%} of runs"
    return None
