"""C09 -- session rules: placement/execution switches, order caps, HFT interleaving."""
import math

from hypothesis import strategies as st

from ..common import CaseInfo, Violation
from ..oracles import Analysis, check_c09
from ..simharness import run_case
from ..strategies import program_strategy, sim_cases, spec_strategy
from ._sim_common import frac, summarize

ID = "C09"
RULE = ("(sessions may spell each of the two renamed high-frequency keys in its deprecated form; with >=4 agents the observed consultation orders must not all be (mirrored) rotations of one order) (sim) Hypothesis generates session lists (both flags, maxNormalOrders 0-4, maxHighFrequencyOrders 0-3, submit rate "
        "0 / 1 / 0.5), 1-8 scripted normal agents and 0-3 scripted high-frequency agents whose programs often decline, probe "
        "events, and in a third of the cases a TradingHaltRule (any session, halting length 0-6). Per step of the trace: no "
        "placement => no consultation / acceptance; no execution (as configured) => no fill whatever events exist; each normal "
        "agent consulted at most once, consultation stops right after maxNormalOrders producers and otherwise covers all; "
        "high-frequency consultations form groups after normal batches, each agent at most once per group, cap respected, "
        "groups complete otherwise; whatever a high-frequency agent returns is accepted before the next agent is consulted (the interleaving of the property's title); rate 0 => none, rate 1 => one group per batch; execution session without halt rule => "
        "the book of the order's market is not executable at the next observation point after every acceptance; consultation "
        "order not constant over >=30 full steps. Non-trivial = run whose sessions cover >=2 flag combinations, or with "
        "high-frequency groups and a binding cap. (order) 40-60 step runs with 3-5 never-capped normal agents: the consultation order must vary and every agent must come first at least once. (rate) long single-session runs at rate r in {0.2,0.5,0.8}: group "
        "frequency within 6 binomial sigma of r.")
ASSUMPTIONS = ["'HFT interleaving' (the property's title) is read as: what a high-frequency agent returns is accepted before the next agent is consulted; the statement fixes when and how many are consulted and would also be met by a runner that collects their orders first",
               "a consultation of a high-frequency agent is observable only when the cap is > 0 (otherwise the loop never asks)",
               "the round-follows-acceptance predicate is not applied to runs that configure a TradingHaltRule (C16 models those)"]

OPTS = {"exec_state": True}


def has_halt(case):
    return any(isinstance(v, dict) and v.get("class") == "TradingHaltRule" for v in case["config"].values())


def check_case(case):
    res = run_case(case, OPTS)
    st_ = check_c09(Analysis(case, res), has_halt(case))
    combos = sum(1 for k in st_ if k.startswith("flags_"))
    nt = combos >= 2 or (st_.get("hft_groups", 0) > 0 and (st_.get("hft_cap_binds", 0) > 0 or st_.get("normal_cap_binds", 0) > 0))
    classes = [k for k in st_ if st_[k] and (k.startswith("flags_") or k in ("hft_groups", "hft_cap_binds", "normal_cap_binds", "round_checks"))]
    if has_halt(case):
        classes.append("halt_rule")
    return CaseInfo(nontrivial=nt, classes=classes, steps=st_["steps"], sample={"case": summarize(case), "stats": st_})


@st.composite
def cases(draw, tier):
    big = tier == "thorough"
    case = draw(sim_cases(n_markets=(1, 2), index_prob=0, groups=(1, 2), agents_per_group=(1, 4), hft=True, n_sessions=(1, 4),
                          steps=(1, 20) if big else (1, 8), decline_weight=2, probes=True))
    cfg = case["config"]
    for s_ in cfg["simulation"]["sessions"]:
        # the deprecated spelling of one of the two renamed keys, or of both (accepted with a warning; same meaning)
        if draw(st.integers(0, 3)) == 0 and "maxHighFrequencyOrders" in s_:
            s_["maxHifreqOrders"] = s_.pop("maxHighFrequencyOrders")
        if draw(st.integers(0, 3)) == 0 and "highFrequencySubmitRate" in s_:
            s_["hifreqSubmitRate"] = s_.pop("highFrequencySubmitRate")
    # observation points right before every acceptance (executable-state probe)
    cfg["PX"] = {"class": "VProbeEvent", "hooks": [["order", True, None, None, None], ["cancel", True, None, None, None]]}
    cfg["simulation"]["sessions"][0].setdefault("events", []).append("PX")
    if draw(st.integers(0, 2)) == 0:
        names = [m for m in cfg["simulation"]["markets"]]
        cfg["HALT"] = {"class": "TradingHaltRule", "targetMarkets": [draw(st.sampled_from(names))],
                       "triggerChangeRate": draw(st.sampled_from([0.005, 0.01, 0.03])), "haltingTimeLength": draw(st.integers(0, 6))}
        s = draw(st.integers(0, len(cfg["simulation"]["sessions"]) - 1))
        cfg["simulation"]["sessions"][s].setdefault("events", []).append("HALT")
    return case


# -- submit-rate statistics ---------------------------------------------------------------------------------------------


@st.composite
def rate_cases(draw, tier):
    r = draw(st.sampled_from([0.2, 0.5, 0.8]))
    steps = 150 if tier == "quick" else 500
    spec = spec_strategy(offs=[-2, -1, 1, 2], market_orders=False, cancels=False, own_cancel=False, ttls=(1, 2))
    prog = program_strategy(spec, max_actions=3, decline_weight=0)
    cfg = {
        "simulation": {"markets": ["M0"], "agents": ["A0", "H0"],
                       "sessions": [{"sessionName": 0, "iterationSteps": steps, "withOrderPlacement": True, "withOrderExecution": draw(st.booleans()),
                                     "withPrint": False, "maxNormalOrders": 3, "maxHighFrequencyOrders": draw(st.integers(1, 2)),
                                     "highFrequencySubmitRate": r}]},
        "M0": {"class": "Market", "tickSize": 1.0, "marketPrice": 300.0},
        "A0": {"class": "VScriptedAgent", "numAgents": 4, "markets": ["M0"], "assetVolume": 10, "cashAmount": 1000, "scripts": [draw(prog)]},
        "H0": {"class": "VScriptedHFT", "numAgents": draw(st.integers(1, 3)), "markets": ["M0"], "assetVolume": 10, "cashAmount": 1000,
               "scripts": [draw(program_strategy(spec, max_actions=2, decline_weight=1))]},
    }
    return {"config": cfg, "seed": draw(st.integers(0, 2**31 - 1))}


def rate_check(case):
    res = run_case(case)
    s = check_c09(Analysis(case, res), False)
    n, k = s.get("rate_batches", 0), s.get("rate_groups", 0)
    r = case["config"]["simulation"]["sessions"][0]["highFrequencySubmitRate"]
    if n < 200:
        return CaseInfo(nontrivial=False, classes=["too_few_batches"], skipped=True)
    sigma = math.sqrt(r * (1 - r) / n)
    if abs(k / n - r) > 6 * sigma:
        raise Violation("C09.hft_submit_rate", f"high-frequency agents were consulted after {k} of {n} normal batches ({k / n:.3f}); configured rate {r} "
                                               f"(6 sigma = {6 * sigma:.3f})")
    return CaseInfo(nontrivial=True, classes=[f"rate_{r}"], steps=n, sample={"rate": r, "batches": n, "groups": k, "seed": case["seed"]})


@st.composite
def order_cases(draw, tier):
    n = draw(st.integers(3, 5))
    steps = draw(st.integers(40, 60))
    spec = spec_strategy(offs=[-2, -1, 1, 2], market_orders=False, cancels=False, own_cancel=False, ttls=(1, 2))
    cfg = {
        "simulation": {"markets": ["M0"], "agents": ["A0"],
                       "sessions": [{"sessionName": 0, "iterationSteps": steps, "withOrderPlacement": True, "withOrderExecution": draw(st.booleans()),
                                     "withPrint": False, "maxNormalOrders": n + draw(st.integers(0, 2))}]},
        "M0": {"class": "Market", "tickSize": 1.0, "marketPrice": 300.0},
        "A0": {"class": "VScriptedAgent", "numAgents": n, "markets": ["M0"], "assetVolume": 10, "cashAmount": 1000,
               "scripts": [draw(program_strategy(spec, max_actions=3, decline_weight=1))]},
    }
    return {"config": cfg, "seed": draw(st.integers(0, 2**31 - 1))}


def order_check(case):
    res = run_case(case)
    A = Analysis(case, res)
    check_c09(A, False)
    firsts = {}
    orders = set()
    n_full = 0
    for s in A.steps:
        nc = [kw["agent"] for i, k, kw in s["items"] if k == "consult" and not kw["hft"]]
        if len(nc) == len(A.normal):
            n_full += 1
            orders.add(tuple(nc))
            firsts[nc[0]] = firsts.get(nc[0], 0) + 1
    if n_full < 40:
        raise Violation("C09.normal_all_consulted", f"only {n_full} of {len(A.steps)} steps consulted every normal agent although the cap exceeds their number")
    if len(orders) == 1:
        raise Violation("C09.random_order", f"{n_full} steps consulted the {len(A.normal)} normal agents in the identical order {next(iter(orders))}")
    # a random permutation, not a random starting point of a fixed cycle: some observed order is not a rotation of another
    base = next(iter(orders))
    n_ = len(base)
    rotations = {base[r:] + base[:r] for r in range(n_)} | {tuple(reversed(base[r:] + base[:r])) for r in range(n_)}
    if n_ >= 4 and orders <= rotations:
        raise Violation("C09.random_order", f"over {n_full} steps every one of the {len(orders)} observed consultation orders of the {n_} normal agents is a rotation "
                                            f"(or mirrored rotation) of {base}: a cyclic walk, not a shuffle (chance under a uniform shuffle < 1e-9)")
    if len(firsts) != len(A.normal):
        raise Violation("C09.random_order", f"over {n_full} steps only agents {sorted(firsts)} were ever consulted first (of {len(A.normal)}); "
                                            f"chance under a uniform shuffle < 1e-6")
    return CaseInfo(nontrivial=True, classes=["order"], steps=n_full, sample={"n_agents": len(A.normal), "steps": n_full, "distinct_orders": len(orders),
                                                                             "first_counts": firsts, "seed": case["seed"]})


PARTS = {
    "order": {"check": order_check, "strategy": order_cases, "budget": {"quick": 64, "thorough": 640}},
    "sim": {"check": check_case, "strategy": cases, "budget": {"quick": 3000, "thorough": 40000}},
    "rate": {"check": rate_check, "strategy": rate_cases, "budget": {"quick": 96, "thorough": 640}},
}


def vacuity(merged, tier):
    for cls, lim in (("flags_True_False", 0.06), ("flags_False_True", 0.02), ("hft_groups", 0.08), ("halt_rule", 0.08), ("round_checks", 0.08),
                     ("hft_cap_binds", 0.02), ("normal_cap_binds", 0.08)):
        if frac(merged, "sim", cls) < lim:
            return f"class {cls} below {lim:.0%} of runs"
    if merged["rate"]["skipped"] > merged["rate"]["evaluations"] // 2:
        return "most rate cases had too few batches"
    return None
