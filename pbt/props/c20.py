"""C20 -- built-in agents emit well-formed orders that follow their documented strategy."""
import math
import random
import warnings

from hypothesis import strategies as st

from ..common import CaseInfo, Violation, classify_exception

warnings.simplefilter("ignore")
from pams.agents import ArbitrageAgent, FCNAgent, MarketMakerAgent, MarketShareFCNAgent  # noqa: E402
from pams.index_market import IndexMarket  # noqa: E402
from pams.market import Market  # noqa: E402
from pams.order import LIMIT_ORDER, MARKET_ORDER, Cancel, Order  # noqa: E402
from pams.simulator import Simulator  # noqa: E402

ID = "C20"
RULE = ("(states may end with 1-6 quiet clock steps after the resting quotes were placed, so that quotes with a lifetime expire without an order event; a market-share FCN agent whose expected price differs from the market price on every accessible market must emit an order in every consultation) Market states are constructed through the calls the simulator makes (setup, clock steps with generated fundamentals, "
        "crossing order pairs + matching rounds to place the price history, resting quotes; optional index market over "
        "equal-share components) and agent parameters are drawn from their admissible ranges. (fcn) noise weight or scale 0: the "
        "order must be a buy at E(1-margin) iff E > p, a sell at E(1+margin) iff E < p, nothing if equal, with E = p * "
        "exp(tws * (wF*F + wC*C)/(wF+wC+wN)), F = ln(pf/p)/max(mrt,1), C = ln(p_t/p_(t-w))/max(w,1), w = min(t, tws) (rel 1e-9); "
        "non-trivial = state on either acting side (buy and sell both counted). (fcn_noise) 300 consultations of one state: side "
        "consistent with the recovered E, implied noise mean 0 / std 1 within 7 sigma. (msfcn) one order at most, on one "
        "accessible market, choice frequencies follow recent executed volume (7 sigma). (maker) exactly one buy and one sell on "
        "the target, midpoint = base price (mean of highest best bid / lowest best ask over accessible markets, else the "
        "target's market price), distance = fundamental * spread. (arb) nothing unless index and all components run and |index "
        "price - index value| > threshold; then one index order of n*v against n component orders of v on the opposite side at "
        "the respective market prices. All: own agent id, accessible market, volume >= 1, positive price, documented ttl.")
ASSUMPTIONS = ["the markets a market maker can access are venues of one asset (equal initial price), as in the market_share sample",
               "fundamental prices lie within [0.6, 1.6] x the initial market price and traded prices move by at most 10% per step (a market maker quote fundamental*spread/2 below its base price stays positive)",
               "FCN weights are 0 or >= 0.01 (their sum is inverted; subnormal sums overflow and are not admissible parameters)",
               "agents can access every market they are configured to act on (index and all components; the maker's target)",
               "index components have equal outstanding shares (the arbitrage agent documents this requirement)"]


def _call(fn, *a, **k):
    try:
        return fn(*a, **k)
    except Exception as e:  # noqa: BLE001
        crash = classify_exception(e)
        if crash is None:
            raise
        raise crash


# -- market state construction ---------------------------------------------------------------------------------------------


@st.composite
def states(draw, n_markets=(1, 3), index=False, max_steps=30, with_quotes=True, same_asset=False, second_index=False):
    n = draw(st.integers(*n_markets))
    ticks = [draw(st.sampled_from([1.0, 0.5, 0.01, 1e-5])) for _ in range(n)]
    p0 = [draw(st.sampled_from([100.0, 300.0, 55.5])) for _ in range(n)]
    if same_asset:
        p0 = [p0[0]] * n  # several venues of one asset (what a market maker with several accessible markets quotes across)
    T = draw(st.integers(0, max_steps))
    steps = []
    for _ in range(T + 1):
        steps.append({"fund": [p0[i] * draw(st.floats(0.6, 1.6)) for i in range(n)],
                      "trade": [draw(st.one_of(st.none(), st.floats(0.9, 1.1))) for _ in range(n + (1 if index else 0))],
                      "vol": [draw(st.integers(1, 9)) for _ in range(n + (1 if index else 0))]})
    quotes = []
    if with_quotes:
        for _ in range(draw(st.integers(0, 6))):
            quotes.append([draw(st.integers(0, n - 1 + (1 if index else 0))), draw(st.booleans()), draw(st.integers(1, 8)), draw(st.sampled_from([None, 3])),
                           draw(st.integers(0, 5)) == 0])  # (last: a MARKET order left resting, as in a session without execution)
    idx2 = None
    if index and second_index and draw(st.booleans()):
        idx2 = {"p0": draw(st.sampled_from([90.0, 200.0, 310.0])), "trade": [draw(st.one_of(st.none(), st.floats(0.9, 1.1))) for _ in range(T + 1)],
                # an index of indices: the first index itself (a market with its own price and shares) and the last spot market
                "nested": draw(st.booleans())}
    return {"n": n, "ticks": ticks, "p0": p0, "steps": steps, "quotes": quotes, "index": index, "index2": idx2,
            "index_p0": draw(st.sampled_from([100.0, 150.0, 300.0])) if index else None, "shares": draw(st.sampled_from([100, 2000])),
            "seed": draw(st.integers(0, 2**31 - 1)),
            # quiet steps after the resting quotes were placed: those with a lifetime expire, so the books change at a clock step
            # without any order event (cached mid prices are then older than the book)
            "tail": draw(st.sampled_from([0, 0, 0, 1, 4, 6])) if with_quotes else 0}


def build_state(state):
    sim = Simulator(prng=random.Random(state["seed"]))
    n = state["n"]
    markets = []
    for i in range(n):
        m = Market(market_id=i, prng=random.Random(i), simulator=sim, name=f"M{i}")
        m.setup({"tickSize": state["ticks"][i], "marketPrice": state["p0"][i], "outstandingShares": state["shares"]})
        sim._add_market(m)
        markets.append(m)
    idx = None
    if state["index"]:
        idx = IndexMarket(market_id=n, prng=random.Random(n), simulator=sim, name="IDX")
        idx.setup({"tickSize": 1.0, "marketPrice": state["index_p0"], "markets": [m.name for m in markets], "outstandingShares": state["shares"]})
        sim._add_market(idx)
    idx2 = None
    if state.get("index2"):
        # a second index over the first two components
        idx2 = IndexMarket(market_id=n + 1, prng=random.Random(n + 1), simulator=sim, name="IDX2")
        idx2.setup({"tickSize": 1.0, "marketPrice": state["index2"]["p0"],
                    "markets": ["IDX", markets[-1].name] if state["index2"].get("nested") else [m.name for m in markets[:2]]})
        sim._add_market(idx2)
    allm = markets + ([idx] if idx is not None else []) + ([idx2] if idx2 is not None else [])
    for m in allm:
        m._is_running = True

    def advance(funds):
        for i, m in enumerate(markets):
            _call(m._update_time, next_fundamental_price=funds[i])
        for ix in (idx, idx2):
            if ix is not None:
                _call(ix._update_time, next_fundamental_price=ix.compute_fundamental_index(time=ix.get_time() + 1))

    def trade(m, factor, vol):
        p = max(m.tick_size, round(m.get_market_price() * factor / m.tick_size) * m.tick_size)
        _call(m._add_order, Order(agent_id=90, market_id=m.market_id, is_buy=True, kind=LIMIT_ORDER, volume=vol, price=p))
        _call(m._add_order, Order(agent_id=91, market_id=m.market_id, is_buy=False, kind=LIMIT_ORDER, volume=vol, price=p))
        _call(m._execution)

    steps = state["steps"]
    advance(steps[0]["fund"])
    for k, s in enumerate(steps):
        for j, m in enumerate(allm):
            if m is idx2:
                if state["index2"]["trade"][k] is not None:
                    trade(m, state["index2"]["trade"][k], 1)
            elif s["trade"][j] is not None:
                trade(m, s["trade"][j], s["vol"][j])
        if k + 1 < len(steps):
            advance(steps[k + 1]["fund"])
    for q in state["quotes"]:
        j, is_buy, off, ttl = q[:4]
        m = allm[j % len(allm)]
        p = m.get_market_price() + (-off if is_buy else off) * m.tick_size
        if len(q) > 4 and q[4]:
            _call(m._add_order, Order(agent_id=92, market_id=m.market_id, is_buy=is_buy, kind=MARKET_ORDER, volume=1, ttl=ttl))
        elif p > 0:
            _call(m._add_order, Order(agent_id=92, market_id=m.market_id, is_buy=is_buy, kind=LIMIT_ORDER, volume=1, price=p, ttl=ttl))
    for _ in range(state.get("tail", 0)):
        advance(steps[-1]["fund"])
    return sim, markets, idx, allm


def wellformed(orders, agent, allowed_ids, ttl, what):
    for o in orders:
        if isinstance(o, Cancel):
            continue
        if not isinstance(o, Order):
            raise Violation("C20.order_type", f"{what} returned {type(o).__name__}")
        if o.agent_id != agent.agent_id:
            raise Violation("C20.own_agent_id", f"{what} emitted an order under agent id {o.agent_id}")
        if o.market_id not in allowed_ids or not agent.is_market_accessible(o.market_id):
            raise Violation("C20.accessible_market", f"{what} emitted an order for market {o.market_id}, accessible: {sorted(agent.asset_volumes)}")
        if not (isinstance(o.volume, int) and o.volume >= 1):
            raise Violation("C20.volume", f"{what}: volume {o.volume!r}")
        if o.price is not None and not (o.price > 0 and math.isfinite(o.price)):
            raise Violation("C20.positive_price", f"{what}: price {o.price!r}")
        if o.ttl != ttl:
            raise Violation("C20.ttl", f"{what}: ttl {o.ttl!r}, documented {ttl!r}")
        if o.placed_at is not None or o.order_id is not None:
            raise Violation("C20.fresh_order", f"{what} returned an order that is already marked accepted")


# -- FCN --------------------------------------------------------------------------------------------------------------------


@st.composite
def fcn_params(draw, noise=False):
    wf = draw(st.sampled_from([0.0, 1.0, 2.5]) | st.floats(0.01, 3.0))
    wc = draw(st.sampled_from([0.0, 1.0, 0.3]) | st.floats(0.01, 3.0))
    wn = draw(st.floats(0.2, 3.0)) if noise else draw(st.sampled_from([0.0, 0.0, 1.0]))
    if wf + wc + wn == 0:
        wf = 1.0
    p = {"fundamentalWeight": {"const": [wf]}, "chartWeight": {"const": [wc]}, "noiseWeight": {"const": [wn]},
         "noiseScale": {"const": [draw(st.sampled_from([0.001, 0.01, 0.05])) if noise else (0.0 if wn > 0 else draw(st.sampled_from([0.0, 0.01])))]},
         "timeWindowSize": {"const": [draw(st.integers(1, 40))]}, "orderMargin": {"const": [draw(st.floats(0.0, 0.3))]},
         # (holdings do not enter the documented rule: an agent without inventory or cash still quotes -- pams agents may go short)
         "cashAmount": draw(st.sampled_from([1000, 1000, 0, -500])), "assetVolume": draw(st.sampled_from([10, 10, 0, -3]))}
    if draw(st.booleans()):
        p["meanReversionTime"] = {"const": [draw(st.integers(0, 60))]}
    r = draw(st.integers(0, 3))
    if r == 0:
        p["marginType"] = "fixed"
    elif r == 1 and not noise:
        # "normal" margin mode: price = expected price + N(0,1) * margin -- the side rule and well-formedness still apply
        p["marginType"] = "normal"
        p["orderMargin"] = {"const": [draw(st.sampled_from([0.0, 0.5, 2.0]))]}
        if "meanReversionTime" in p:
            # (a mean reversion time far below the window extrapolates the expected price towards 0, where "expected price + Gaussian
            #  noise" can turn negative and trips pams' own assertion: not a regime the documented strategy is meant for)
            p["meanReversionTime"] = {"const": [max(p["meanReversionTime"]["const"][0], p["timeWindowSize"]["const"][0])]}
    return p


def fcn_expectation(agent, m, eps=0.0):
    p = m.get_market_price()
    pf = m.get_fundamental_price()
    t = m.get_time()
    tws = agent.time_window_size
    w = min(t, tws)
    F = math.log(pf / p) / max(agent.mean_reversion_time, 1)
    C = math.log(p / m.get_market_price(t - w)) / max(w, 1)
    tot = agent.fundamental_weight + agent.chart_weight + agent.noise_weight
    sign = 1.0 if getattr(agent, "is_chart_following", True) else -1.0  # a contrarian reads the chart term with the opposite sign; the weights are the same
    return p * math.exp(tws * (agent.fundamental_weight * F + sign * agent.chart_weight * C + agent.noise_weight * eps) / tot), F, C


def fcn_check_orders(agent, m, orders, E_expected=None):
    """side and price rule of the fixed-margin mode; returns the recovered expected price (or None if no order)."""
    p = m.get_market_price()
    wellformed(orders, agent, {m.market_id}, agent.time_window_size, "FCN agent")
    if len(orders) > 1:
        raise Violation("C20.fcn_one_order", f"{len(orders)} orders for one market")
    if E_expected is not None:
        side = "buy" if E_expected > p else ("sell" if E_expected < p else None)
        if side is None:
            if orders:
                raise Violation("C20.fcn_no_order_when_equal", "expected price equals market price but an order was emitted")
            return None
        if len(orders) != 1:
            raise Violation("C20.fcn_acts", f"expected price {E_expected!r} vs market price {p!r}: no order emitted")
        o = orders[0]
        want = E_expected * (1 - agent.order_margin) if side == "buy" else E_expected * (1 + agent.order_margin)
        if o.is_buy != (side == "buy"):
            raise Violation("C20.fcn_side", f"expected price {E_expected!r}, market price {p!r}: emitted a {'buy' if o.is_buy else 'sell'}")
        if getattr(agent, "margin_type", 0) == 1:
            # normal-margin mode: the quote is the expected price plus Gaussian noise of scale orderMargin
            if o.kind != LIMIT_ORDER or o.volume != 1 or abs(o.price - E_expected) > 8 * agent.order_margin + 1e-9 * E_expected:
                raise Violation("C20.fcn_price_normal_margin", f"{side} at {o.price!r}, expected price {E_expected!r}, margin scale {agent.order_margin}")
            return E_expected
        if o.kind != LIMIT_ORDER or not math.isclose(o.price, want, rel_tol=1e-9):
            raise Violation("C20.fcn_price", f"{side} at {o.price!r}, documented {want!r} (E {E_expected!r}, margin {agent.order_margin})")
        if o.volume != 1:
            raise Violation("C20.fcn_volume", f"{o.volume}")
        return E_expected
    if not orders:
        return None
    o = orders[0]
    E = o.price / (1 - agent.order_margin) if o.is_buy else o.price / (1 + agent.order_margin)
    if (o.is_buy and not E > p * (1 - 1e-12)) or (not o.is_buy and not E < p * (1 + 1e-12)):
        raise Violation("C20.fcn_side", f"{'buy' if o.is_buy else 'sell'} at {o.price!r} implies expected price {E!r} vs market price {p!r}")
    return E


@st.composite
def fcn_cases(draw, tier):
    params = draw(fcn_params())
    if draw(st.booleans()):
        # a group of agents built from ONE settings dict (what the runner does), with a randomised window
        lo = draw(st.integers(1, 30))
        params["timeWindowSize"] = [lo, lo + draw(st.sampled_from([1, 1, 2, 5, 40]))]
        if params.get("marginType") == "normal" and "meanReversionTime" in params:
            # (same regime restriction as in fcn_params: no extrapolation of the expected price towards 0 in normal-margin mode)
            params["meanReversionTime"] = {"const": [max(params["meanReversionTime"]["const"][0], params["timeWindowSize"][1])]}
    with_index = draw(st.integers(0, 3)) == 0
    return {"state": draw(states(n_markets=(2, 2), index=True)) if with_index else draw(states(n_markets=(1, 2))), "params": params,
            "access": "all" if with_index else draw(st.sampled_from(["all", "first"])),
            # (with an index market: a component's fundamental is shocked after the clock advance of the current step, so the index's
            #  published fundamental -- recorded at the advance -- differs from a fresh average over the components)
            "late_component_shock": draw(st.sampled_from([None, 1.1, 0.8])) if with_index else None,
            "agent_seed": draw(st.integers(0, 2**31 - 1)), "group_size": draw(st.sampled_from([1, 1, 2, 3])),
            "contrarian": draw(st.sampled_from([None, None, None, "after", "before"])),
            "reweight": draw(st.sampled_from([None, None, None, 2.0, 0.25]))}


def fcn_check(case):
    import copy

    sim, markets, idx, allm = build_state(case["state"])
    acc = [m.market_id for m in markets] if case["access"] == "all" else [markets[0].market_id]
    if idx is not None:
        acc.append(idx.market_id)
        if case.get("late_component_shock"):
            t_now = markets[0].get_time()
            markets[0]._fundamental_prices[t_now] = markets[0]._fundamental_prices[t_now] * case["late_component_shock"]  # what Market.change_fundamental_price records
        markets = markets + [idx]  # the FCN agent trades the index market like any other
    shared = copy.deepcopy(case["params"])  # one dict for the whole group, as SequentialRunner passes it
    group = []
    for g in range(case.get("group_size", 1)):
        ag = FCNAgent(agent_id=7 + g, prng=random.Random(case["agent_seed"] + 1000 * g), simulator=sim, name=f"fcn{g}")
        if case.get("contrarian") == "before":
            ag.is_chart_following = False  # chosen in a subclass constructor, i.e. before setup
        _call(ag.setup, settings=shared, accessible_markets_ids=acc)
        if case.get("contrarian"):
            if case["contrarian"] == "before" and ag.is_chart_following is not False:
                raise Violation("C20.fcn_contrarian_switch", "is_chart_following was False before setup (a subclass constructor chose it) and setup reset it")
            ag.is_chart_following = False  # the public switch of FCNAgent (a user subclass sets it)
        if case.get("reweight"):
            # a regime-switching subclass re-assigns the public weights after setup: the documented combination uses the weights in force
            ag.fundamental_weight, ag.chart_weight = ag.fundamental_weight * case["reweight"], ag.chart_weight * 0.5
        group.append(ag)
    classes = set()
    if case.get("contrarian"):
        classes.add("contrarian")
    for ag in group:
        if "meanReversionTime" not in case["params"] and ag.mean_reversion_time != ag.time_window_size:
            raise Violation("C20.fcn_default_mean_reversion_time", f"agent {ag.name}: meanReversionTime is not configured, so it defaults to the agent's own "
                                                                   f"timeWindowSize {ag.time_window_size}, but it is {ag.mean_reversion_time}")
        tw = case["params"]["timeWindowSize"]
        if isinstance(tw, list) and not (tw[0] <= ag.time_window_size < tw[1]):
            # [a, b] draws a <= x < b; the window is its integer part
            raise Violation("C20.fcn_window_support", f"timeWindowSize {ag.time_window_size} outside [{tw[0]}, {tw[1]})")
    if len(group) > 1:
        classes.add("group")
    a = group[-1]
    if getattr(a, "margin_type", 0) == 1 and any(fcn_expectation(a, m)[0] < 10 * a.order_margin for m in markets if m.market_id in acc):
        # normal-margin mode quotes "expected price + N(0, margin)": with an expected price within a few margins of zero the quote
        # can turn negative and trips the agent's own assertion -- a regime the documented strategy is not meant for
        return CaseInfo(skipped=True, classes=["normal_margin_near_zero"])
    orders = _call(a.submit_orders, markets=allm)
    for o in orders:
        if o.market_id not in acc:
            raise Violation("C20.accessible_market", f"FCN agent with access to {acc} ordered on market {o.market_id}")
    for m in markets:
        mine = [o for o in orders if o.market_id == m.market_id]
        if m.market_id not in acc:
            continue
        E, F, C = fcn_expectation(a, m)
        fcn_check_orders(a, m, mine, E_expected=E)
        p = m.get_market_price()
        classes.add("buy" if E > p else ("sell" if E < p else "none"))
        if getattr(a, "margin_type", 0) == 1:
            classes.add("normal_margin")
        if m.get_time() > a.time_window_size:
            classes.add("window_shorter_than_history")
        if C != 0:
            classes.add("chart_term")
    return CaseInfo(nontrivial=bool(classes & {"buy", "sell"}), classes=classes, steps=len(case["state"]["steps"]),
                    sample={"params": case["params"], "n_steps": len(case["state"]["steps"]), "orders": [[o.market_id, o.is_buy, o.price, o.ttl] for o in orders]})


@st.composite
def fcn_noise_cases(draw, tier):
    return {"state": draw(states(n_markets=(1, 1), max_steps=12)), "params": draw(fcn_params(noise=True)), "agent_seed": draw(st.integers(0, 2**31 - 1)),
            "K": 300}


def fcn_noise_check(case):
    sim, markets, idx, allm = build_state(case["state"])
    m = markets[0]
    a = FCNAgent(agent_id=3, prng=random.Random(case["agent_seed"]), simulator=sim, name="fcn")
    _call(a.setup, settings=case["params"], accessible_markets_ids=[0])
    E0, F, C = fcn_expectation(a, m)
    p = m.get_market_price()
    tot = a.fundamental_weight + a.chart_weight + a.noise_weight
    eps = []
    for _ in range(case["K"]):
        orders = _call(a.submit_orders, markets=allm)
        E = fcn_check_orders(a, m, orders)
        if E is None:
            raise Violation("C20.fcn_acts", "with noise the expected price differs from the market price almost surely, yet no order was emitted")
        lr = math.log(E / p) / a.time_window_size * tot
        eps.append((lr - a.fundamental_weight * F - a.chart_weight * C) / (a.noise_weight * a.noise_scale))
    K = len(eps)
    mean = sum(eps) / K
    sd = math.sqrt(sum((e - mean) ** 2 for e in eps) / (K - 1))
    if abs(mean) > 7 / math.sqrt(K) or abs(sd - 1) > 7 / math.sqrt(2 * K):
        raise Violation("C20.fcn_noise_term", f"implied noise over {K} consultations has mean {mean!r} std {sd!r}; documented: standard normal scaled by noiseScale")
    return CaseInfo(nontrivial=True, classes=["noise"], steps=K, sample={"params": case["params"], "mean": mean, "std": sd})


# -- market share FCN ----------------------------------------------------------------------------------------------------


@st.composite
def msfcn_cases(draw, tier):
    return {"state": draw(states(n_markets=(2, 3), max_steps=10)), "params": draw(fcn_params()), "agent_seed": draw(st.integers(0, 2**31 - 1)),
            "drop": draw(st.booleans()), "K": 300}


def msfcn_check(case):
    sim, markets, idx, allm = build_state(case["state"])
    a = MarketShareFCNAgent(agent_id=4, prng=random.Random(case["agent_seed"]), simulator=sim, name="ms")
    acc = [m.market_id for m in markets]
    if case["drop"]:
        acc = acc[:-1]
    _call(a.setup, settings=case["params"], accessible_markets_ids=acc)
    t = markets[0].get_time()
    t0 = max(0, t - a.time_window_size)
    w = {m.market_id: float(sum(m.get_executed_volumes(range(t0, t + 1)))) for m in markets if m.market_id in acc}
    tot = sum(w.values())
    counts = {k: 0 for k in w}
    acting = {}
    for m in markets:
        if m.market_id in acc:
            E, _, _ = fcn_expectation(a, m)
            acting[m.market_id] = E != m.get_market_price()
    n_orders = 0
    if getattr(a, "margin_type", 0) == 1 and any(fcn_expectation(a, m)[0] < 10 * a.order_margin for m in markets if m.market_id in acc):
        return CaseInfo(skipped=True, classes=["normal_margin_near_zero"])  # (see fcn_check)
    for _ in range(case["K"]):
        orders = _call(a.submit_orders, markets=allm)
        if len(orders) > 1:
            raise Violation("C20.msfcn_one_market", f"{len(orders)} orders in one consultation")
        if not orders and all(acting.values()):
            raise Violation("C20.msfcn_acts", f"the expected price differs from the market price on every accessible market {acc}, yet a consultation produced no order "
                                              f"(recent executed volume per accessible market {w})")
        for o in orders:
            if o.market_id not in acc:
                raise Violation("C20.accessible_market", f"market-share FCN agent with access to {acc} ordered on market {o.market_id}")
            m = sim.id2market[o.market_id]
            E, _, _ = fcn_expectation(a, m)
            fcn_check_orders(a, m, [o], E_expected=E)
            counts[o.market_id] += 1
            n_orders += 1
    # choice frequency follows recent executed volume (only visible for markets on which the agent acts)
    if tot > 0 and all(acting.values()):
        for k in counts:
            q = w[k] / tot
            sigma = math.sqrt(max(q * (1 - q), 1e-9) / case["K"])
            if abs(counts[k] / case["K"] - q) > 7 * sigma + 1e-9:
                raise Violation("C20.msfcn_choice_follows_volume", f"market {k} chosen {counts[k]}/{case['K']} times, share of recent executed volume {q:.3f} ({w})")
    classes = (["volume_weighted"] if tot > 0 and all(acting.values()) and len([v for v in w.values() if v > 0]) >= 2 else []) + (["dropped"] if case["drop"] else [])
    return CaseInfo(nontrivial=n_orders > 0, classes=classes, steps=case["K"], sample={"weights": w, "counts": counts, "access": acc})


# -- market maker -----------------------------------------------------------------------------------------------------------


@st.composite
def maker_cases(draw, tier):
    state = draw(states(n_markets=(1, 3), max_steps=8, same_asset=True))
    return {"state": state, "spread": draw(st.sampled_from([0.0, 0.01, 0.02, 0.1]) | st.floats(0.0, 0.3)), "ttl": draw(st.one_of(st.none(), st.integers(1, 9))),
            "target": draw(st.integers(0, 2)), "access_all": draw(st.booleans()), "agent_seed": draw(st.integers(0, 1000))}


def maker_check(case):
    sim, markets, idx, allm = build_state(case["state"])
    target = markets[case["target"] % len(markets)]
    a = MarketMakerAgent(agent_id=5, prng=random.Random(case["agent_seed"]), simulator=sim, name="mm")
    settings = {"cashAmount": 1000, "assetVolume": 10, "targetMarket": target.name, "netInterestSpread": case["spread"]}
    if case["ttl"] is not None:
        settings["orderTimeLength"] = case["ttl"]
    acc = [m.market_id for m in markets] if case["access_all"] else [target.market_id]
    _call(a.setup, settings=settings, accessible_markets_ids=acc)
    orders = _call(a.submit_orders, markets=allm)
    wellformed(orders, a, {target.market_id}, case["ttl"] if case["ttl"] is not None else 2, "market maker")
    buys = [o for o in orders if o.is_buy]
    sells = [o for o in orders if not o.is_buy]
    if len(orders) != 2 or len(buys) != 1 or len(sells) != 1:
        raise Violation("C20.maker_two_quotes", f"{len(buys)} buy(s) and {len(sells)} sell(s)")
    bids = [m.get_best_buy_price() for m in markets if m.market_id in acc and m.get_best_buy_price() is not None]
    asks = [m.get_best_sell_price() for m in markets if m.market_id in acc and m.get_best_sell_price() is not None]
    base = (max(bids) + min(asks)) / 2.0 if bids and asks else target.get_market_price()
    mid = (buys[0].price + sells[0].price) / 2.0
    dist = sells[0].price - buys[0].price
    want = target.get_fundamental_price() * case["spread"]
    if not math.isclose(mid, base, rel_tol=1e-9):
        raise Violation("C20.maker_midpoint", f"quotes {buys[0].price!r}/{sells[0].price!r} centre on {mid!r}, base price is {base!r} (bids {bids}, asks {asks})")
    if not math.isclose(dist, want, rel_tol=1e-9, abs_tol=1e-9 * base):
        raise Violation("C20.maker_spread", f"quotes are {dist!r} apart, fundamental * spread = {want!r}")
    if any(o.volume != 1 or o.kind != LIMIT_ORDER for o in orders):
        raise Violation("C20.maker_volume", "")
    classes = ["quotes_from_book" if bids and asks else "quotes_from_market_price"]
    return CaseInfo(nontrivial=True, classes=classes, sample={"spread": case["spread"], "base": base, "orders": [[o.is_buy, o.price] for o in orders]})


# -- arbitrage -------------------------------------------------------------------------------------------------------------


@st.composite
def arb_cases(draw, tier):
    state = draw(states(n_markets=(2, 3), index=True, max_steps=6, with_quotes=False, second_index=True))
    return {"state": state, "volume": draw(st.integers(1, 20)), "threshold": draw(st.sampled_from([0.0, 0.5, 1.0, 5.0, 20.0]) | st.floats(0.0, 50.0)),
            "ttl": draw(st.one_of(st.none(), st.integers(1, 9))), "stopped": draw(st.sampled_from([None, None, None, "index", "component"])),
            "index_access": draw(st.sampled_from([True, True, True, False])), "agent_seed": draw(st.integers(0, 1000)),
            # in one case out of four the threshold is set to exactly the gap of the constructed state (must NOT act)
            "threshold_at_gap": draw(st.integers(0, 3)) == 0}


def arb_check(case):
    sim, markets, idx, allm = build_state(case["state"])
    a = ArbitrageAgent(agent_id=6, prng=random.Random(case["agent_seed"]), simulator=sim, name="arb")
    threshold = case["threshold"]
    if case.get("threshold_at_gap"):
        threshold = abs(idx.get_market_price() - idx.get_index())
    idx2 = next((ix for ix in allm if isinstance(ix, IndexMarket) and ix is not idx), None)
    settings = {"cashAmount": 1000, "assetVolume": 10, "orderVolume": case["volume"], "orderThresholdPrice": threshold}
    if case["ttl"] is not None:
        settings["orderTimeLength"] = case["ttl"]
    nested = bool((case["state"].get("index2") or {}).get("nested"))
    # (an arbitrage agent can access every component of an index it trades: with a nested index that includes the inner index)
    acc = [m.market_id for m in markets] + ([idx.market_id] if case["index_access"] or nested else []) + ([idx2.market_id] if idx2 is not None else [])
    _call(a.setup, settings=settings, accessible_markets_ids=acc)
    if case["stopped"] == "index":
        idx._is_running = False
    elif case["stopped"] == "component":
        markets[-1]._is_running = False
    orders = _call(a.submit_orders, markets=allm)
    wellformed(orders, a, {m.market_id for m in allm}, case["ttl"] if case["ttl"] is not None else 1, "arbitrage agent")
    indexes = [ix for ix in allm if isinstance(ix, IndexMarket)]
    expected = []
    gaps = []
    for ix in indexes:
        comps = ix.get_components()
        ip = ix.get_market_price()
        iv = ix.get_index()  # the index value the documentation refers to (C17 checks it against the weighted average)
        ref = math.fsum(m.get_market_price() for m in comps) / len(comps)  # equal shares
        if not math.isclose(iv, ref, rel_tol=1e-12):
            return CaseInfo(skipped=True, classes=["index_value_off"])
        gap = ip - iv
        gaps.append(gap)
        stopped = not ix.is_running or any(not c.is_running for c in comps)
        if not stopped and a.is_market_accessible(ix.market_id) and abs(gap) > threshold:
            buy_index = gap < 0
            expected.append((ix.market_id, buy_index, len(comps) * case["volume"], ip))
            for m in comps:
                expected.append((m.market_id, not buy_index, case["volume"], m.get_market_price()))
    got = sorted((o.market_id, o.is_buy, o.volume, o.price) for o in orders)
    if any(o.kind != LIMIT_ORDER for o in orders):
        raise Violation("C20.arb_order_kind", "arbitrage agent emitted a non-limit order")
    if got != sorted(expected):
        if not expected:
            raise Violation("C20.arb_acts_only_beyond_threshold", f"index price / index value gaps {gaps!r}, threshold {threshold!r}, stopped {case['stopped']}, "
                                                                  f"index accessible {case['index_access']}: {len(orders)} orders emitted")
        raise Violation("C20.arb_basket", f"gaps {gaps!r} vs threshold {threshold!r}: emitted (market, is_buy, volume, price) {got}, documented {sorted(expected)} "
                                          f"(one index order of n*v and n component orders of v on the opposite side per mispriced index)")
    if not expected:
        return CaseInfo(nontrivial=False, classes=["idle", "stopped" if case["stopped"] else "running"] + (["gap_equals_threshold"] if any(abs(g) == threshold for g in gaps) else []),
                        sample={"gaps": gaps, "threshold": threshold})
    n_act = sum(1 for e in expected if e[0] in [ix.market_id for ix in indexes])
    classes = ["buy_index" if expected[0][1] else "sell_index"] + (["two_indexes_act"] if n_act == 2 else []) + (["two_indexes"] if len(indexes) == 2 else []) + (["nested_index"] if (case["state"].get("index2") or {}).get("nested") else [])
    return CaseInfo(nontrivial=True, classes=classes, sample={"gaps": gaps, "threshold": threshold, "orders": [list(g) for g in got]})


PARTS = {
    "fcn": {"check": fcn_check, "strategy": fcn_cases, "budget": {"quick": 3000, "thorough": 100000}},
    "fcn_noise": {"check": fcn_noise_check, "strategy": fcn_noise_cases, "budget": {"quick": 160, "thorough": 3200}},
    "msfcn": {"check": msfcn_check, "strategy": msfcn_cases, "budget": {"quick": 320, "thorough": 6400}},
    "maker": {"check": maker_check, "strategy": maker_cases, "budget": {"quick": 3000, "thorough": 100000}},
    "arb": {"check": arb_check, "strategy": arb_cases, "budget": {"quick": 3000, "thorough": 100000}},
}


def vacuity(merged, tier):
    def fr(part, cls):
        return merged[part]["classes"].get(cls, 0) / max(1, merged[part]["evaluations"])

    for part, cls, lim in (("fcn", "buy", 0.08), ("fcn", "sell", 0.08), ("fcn", "chart_term", 0.08), ("fcn", "window_shorter_than_history", 0.04),
                           ("msfcn", "volume_weighted", 0.08), ("maker", "quotes_from_book", 0.06), ("maker", "quotes_from_market_price", 0.06),
                           ("arb", "buy_index", 0.04), ("arb", "sell_index", 0.04), ("arb", "idle", 0.06), ("arb", "gap_equals_threshold", 0.04)):
        if fr(part, cls) < lim:
            return f"{part}: class {cls} below {lim:.0%}"
    return None
