#!/venv/bin/python
"""Coverage-guided fuzzing (atheris / libFuzzer) of the kind-A market machine -- thorough tier only.

    fuzz_market.py ORACLE_ID OUT_DIR [libFuzzer flags...]

Bytes are decoded by a FuzzedDataProvider into the same JSON operation histories the Hypothesis strategies produce; the
semantic oracle of property ORACLE_ID runs inside the target.  On a failure the decoded case is written to
OUT_DIR/violation-<n>.json (the reproducible unit) and the target raises, so libFuzzer stops and keeps its own artifact.
The tested code has no global state; every iteration builds a fresh Market.
"""
import hashlib
import json
import math
import os
import sys

HERE = os.path.dirname(os.path.abspath(__file__))
sys.path.insert(0, os.path.dirname(HERE))
from pbt import common  # noqa: E402,F401  (sets up sys.path for /repo and /verif/.deps)

import atheris  # noqa: E402

with atheris.instrument_imports(include=["pams"]):
    import pams.market  # noqa: F401
    import pams.order  # noqa: F401
    import pams.order_book  # noqa: F401

from pbt.common import PamsCrash, Violation, prop_anchor_files  # noqa: E402
from pbt.market_machine import P0S, TICKS, run_market_case  # noqa: E402

ORACLE = sys.argv[1]
OUT = sys.argv[2]
ANCHORS = set(prop_anchor_files(ORACLE))
COUNT = {"n": 0, "ops": 0, "rounds": 0, "with_fills": 0, "calls": 0}
RUNS = max([int(a.split("=")[1]) for a in sys.argv if a.startswith("-runs=")] + [0])
HASHES = set()
SAMPLES = []


def decode(data: bytes):
    fdp = atheris.FuzzedDataProvider(data)
    tick = TICKS[fdp.ConsumeIntInRange(0, len(TICKS) - 1)]
    p0 = P0S[fdp.ConsumeIntInRange(0, len(P0S) - 1)]
    if p0 < 20 * tick:
        p0 = 20 * tick + p0
    base = math.floor(p0 / tick) * tick
    flags = fdp.ConsumeIntInRange(0, 255)
    case = {"tick": tick, "p0": p0, "continuous": bool(flags & 1), "running0": not (flags & 6 == 6), "ops": [],
            "drain_after_cancel": bool(flags & 8), "final_drain": True}
    if flags & 48 == 48:
        case["pre_ticks"] = 98
    ops = case["ops"]
    while fdp.remaining_bytes() > 0 and len(ops) < 120:
        k = fdp.ConsumeIntInRange(0, 23)
        if k <= 11:
            off = fdp.ConsumeIntInRange(-15, 15)
            price = base + off * tick
            if k == 11:
                price += fdp.ConsumeIntInRange(1, 99) / 100.0 * tick
            if price <= 0:
                price = tick
            ops.append(["L", bool(fdp.ConsumeBool()), price, 1 + fdp.ConsumeIntInRange(0, 5) if k < 10 else fdp.ConsumeIntInRange(1, 5000),
                        [None, None, 1, 2, 3, 5][fdp.ConsumeIntInRange(0, 5)], fdp.ConsumeIntInRange(0, 2)])
        elif k <= 13:
            ops.append(["M", bool(fdp.ConsumeBool()), fdp.ConsumeIntInRange(1, 6), [None, 1, 2, 3][fdp.ConsumeIntInRange(0, 3)], fdp.ConsumeIntInRange(0, 2)])
        elif k <= 17:
            ops.append(["C", fdp.ConsumeIntInRange(0, 200)])
        elif k <= 19:
            ops.append(["T"])
        elif k == 20:
            ops.append(["R", fdp.ConsumeIntInRange(0, 2) > 0])
        elif k == 21:
            ops.append(["X"])
        elif k == 22:
            if fdp.ConsumeBool():
                ops.append(["D", bool(fdp.ConsumeBool()), [0.3, 0.5, 0.8, 1.0][fdp.ConsumeIntInRange(0, 3)]])
            else:
                ops.append(["CB", bool(fdp.ConsumeBool())])
        else:
            if ORACLE == "C04":
                ops.append(["RS", fdp.ConsumeIntInRange(0, 200)] if fdp.ConsumeBool() else ["FM", bool(fdp.ConsumeBool()), base, 1])
            else:
                ops.append(["X"])
    return case


def save(case, oracle, message, detail=None):
    os.makedirs(OUT, exist_ok=True)
    n = len([f for f in os.listdir(OUT) if f.startswith("violation-")])
    with open(os.path.join(OUT, f"violation-{n}.json"), "w") as f:
        json.dump({"case": case, "oracle": oracle, "message": message, "detail": detail}, f)


def TestOneInput(data: bytes):
    COUNT["calls"] += 1
    if COUNT["calls"] % 1000 == 0 or COUNT["calls"] >= RUNS - 1:
        dump_stats()  # libFuzzer leaves through os._exit: nothing runs after the last input
    case = decode(data)
    if not case["ops"]:
        return
    COUNT["n"] += 1
    COUNT["ops"] += len(case["ops"])
    try:
        run = run_market_case(case, {ORACLE})
        COUNT["rounds"] += run.n_rounds
        if run.flags.get("rounds_with_fills"):
            COUNT["with_fills"] += 1
            HASHES.add(int.from_bytes(hashlib.blake2b(data, digest_size=8).digest(), "big"))
            if len(SAMPLES) < 2 and len(case["ops"]) >= 6:
                SAMPLES.append({"tick": case["tick"], "p0": case["p0"], "continuous": case["continuous"], "ops": case["ops"][:20], "n_ops": len(case["ops"])})
    except Violation as v:
        save(case, v.oracle, v.message, v.detail)
        dump_stats()
        raise
    except PamsCrash as c:
        f = c.innermost_pams_file()
        if f in ANCHORS:
            save(case, f"crash:{f}:{c.exc_type}", f"pams raised {c.exc_type} ({c.exc_msg}) on an admissible input", c.tb_text)
            raise


def dump_stats():
    with open(os.path.join(OUT, f"stats-{os.getpid()}.json"), "w") as f:
        json.dump(dict(COUNT, hashes=list(HASHES), samples=SAMPLES), f)


def main():
    os.makedirs(OUT, exist_ok=True)
    atheris.Setup([sys.argv[0]] + sys.argv[3:], TestOneInput)
    try:
        atheris.Fuzz()
    finally:
        dump_stats()


if __name__ == "__main__":
    main()
