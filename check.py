#!/venv/bin/python
"""CLI of the verification framework.

    check.py <ID> [--tier quick|thorough] [--replay FILE] [--parts a,b] [--scale F]

exit 0: property held on everything explored; exit 1 + ``VIOLATION property=<id> replay=<path>``: violation found;
exit 2: harness error / inconclusive (never a violation).
"""
import argparse
import glob
import importlib
import json
import os
import sys
import time
import warnings

if (sys.flags.hash_randomization or os.environ.get("PYTHONHASHSEED") != "0") and os.environ.get("VERIF_REEXEC") != "1":
    # fixed hash seed for the driver and its forked workers (C07 varies it in sub-processes on purpose)
    os.environ["PYTHONHASHSEED"] = "0"
    os.environ["VERIF_REEXEC"] = "1"
    os.execv(sys.executable, [sys.executable] + sys.argv)

sys.path.insert(0, os.path.dirname(os.path.abspath(__file__)))
warnings.simplefilter("ignore")

from pbt import common  # noqa: E402
from pbt.common import PamsCrash, Recorder, Violation  # noqa: E402


def load_module(prop_id: str):
    return importlib.import_module(f"pbt.props.{prop_id.lower()}")


def replay_case(mod, part_name: str, case) -> "dict | None":
    """run one saved case without Hypothesis; returns a violation record or None."""
    part = mod.PARTS[part_name]
    if "check" not in part:
        check = part["replay"]
    else:
        check = part["check"]
    rec = Recorder(mod.ID, check)
    rec.counting = False
    if part.get("watchdog"):
        rec.watchdog_s, rec.timeout_violation = part["watchdog"]
    try:
        rec(case)
    except Violation:
        v = rec.last_failure
        v["part"] = part_name
        return v
    return None


def main() -> int:
    ap = argparse.ArgumentParser()
    ap.add_argument("prop")
    ap.add_argument("--tier", default=os.environ.get("VERIF_TIER", "quick"), choices=["quick", "thorough"])
    ap.add_argument("--replay")
    ap.add_argument("--parts")
    ap.add_argument("--scale", type=float, default=float(os.environ.get("VERIF_SCALE", "1")))
    args = ap.parse_args()
    prop_id = args.prop.upper()
    seed = common.get_seed()
    t0 = time.time()
    mod = load_module(prop_id)

    if args.replay:
        with open(args.replay) as f:
            doc = json.load(f)
        part = doc.get("part") or next(iter(mod.PARTS))
        v = None
        for _ in range(3):
            v = replay_case(mod, part, doc["case"])
            if v is not None:
                break
        if v is not None:
            print(f"replay: {v['oracle']}: {v['message']}")
            print(f"VIOLATION property={prop_id} replay={os.path.abspath(args.replay)}")
            return 1
        print(f"replay: property {prop_id} holds on {args.replay}")
        return 0

    known_all = common.load_known_findings(prop_id)

    # 1. regression inputs (seconds): saved minimal inputs of confirmed findings and earlier shrunk failures
    reg_files = sorted(glob.glob(os.path.join(common.VERIF_DIR, "regressions", prop_id, "*.json")))
    n_reg = 0
    for path in reg_files:
        with open(path) as f:
            doc = json.load(f)
        part = doc.get("part") or next(iter(mod.PARTS))
        n_reg += 1
        v = replay_case(mod, part, doc["case"])
        if v is not None:
            print(f"regression input {os.path.relpath(path, common.VERIF_DIR)} fails: {v['oracle']}: {v['message']}")
            print(f"VIOLATION property={prop_id} replay={path}")
            _evidence(mod, prop_id, args.tier, seed, {}, t0, 1, n_reg, note="regression input failed")
            return 1

    # 2. generated search, part by part
    part_names = args.parts.split(",") if args.parts else list(mod.PARTS)
    merged_parts = {}
    for name in part_names:
        part = mod.PARTS[name]
        if part["budget"][args.tier] == 0:
            continue  # this part is not run in this tier
        budget = max(1, int(part["budget"][args.tier] * args.scale))
        n_shards = part.get("n_shards", common.N_PROC)
        results = common.run_sharded(mod.__name__, name, args.tier, seed, budget, n_shards=n_shards)
        merged = common.merge_results(results)
        merged_parts[name] = merged
        if merged["harness_error"]:
            print(f"HARNESS-ERROR property={prop_id} part={name}\n{merged['harness_error']}", file=sys.stderr)
            _evidence(mod, prop_id, args.tier, seed, merged_parts, t0, 0, n_reg, note="harness error")
            return 2
        if merged["violation"] is not None:
            v = merged["violation"]
            v["part"] = name
            # confirm outside Hypothesis (a failure that does not reproduce from its saved input is not reported)
            confirmed = None
            for _ in range(3):
                confirmed = replay_case(mod, name, json.loads(json.dumps(v["case"])))
                if confirmed is not None:
                    break
            if confirmed is None:
                print(f"INCONCLUSIVE property={prop_id}: a failure ({v['oracle']}: {v['message']}) did not reproduce "
                      f"from its saved input", file=sys.stderr)
                path = common.write_replay(prop_id, v)
                print(f"unreproduced input kept at {path}", file=sys.stderr)
                _evidence(mod, prop_id, args.tier, seed, merged_parts, t0, 0, n_reg, note="unreproducible failure")
                return 2
            confirmed["part"] = name
            path = common.write_replay(prop_id, confirmed)
            with open(path) as f:
                doc = json.load(f)
            doc["part"] = name
            with open(path, "w") as f:
                json.dump(doc, f, indent=1, default=repr)
            print(f"{confirmed['oracle']}: {confirmed['message']}")
            print(f"VIOLATION property={prop_id} replay={path}")
            _evidence(mod, prop_id, args.tier, seed, merged_parts, t0, 1, n_reg)
            return 1

    for e in known_all:
        hits = sum(m["known_hits"].get(e["signature"], 0) for m in merged_parts.values())
        print(f"KNOWN-FINDING: property={prop_id} {e['what']} (signature {e['signature']}, excluded {hits} times)")

    # 3. vacuity guards
    problem = mod.vacuity(merged_parts, args.tier) if hasattr(mod, "vacuity") and not args.parts else None
    _evidence(mod, prop_id, args.tier, seed, merged_parts, t0, 0, n_reg, note=problem)
    if problem:
        print(f"INCONCLUSIVE property={prop_id}: generator degenerated: {problem}", file=sys.stderr)
        return 2
    ev = sum(m["evaluations"] for m in merged_parts.values())
    nt = sum(len(m["nontrivial_hashes"]) for m in merged_parts.values())
    print(f"OK property={prop_id} tier={args.tier} seed={seed} evaluations={ev} distinct_nontrivial={nt} "
          f"wall={time.time() - t0:.1f}s")
    return 0


def _evidence(mod, prop_id, tier, seed, merged_parts, t0, violations, n_reg, note=None):
    evaluations = sum(m["evaluations"] for m in merged_parts.values())
    nontrivial = sum(len(m["nontrivial_hashes"]) for m in merged_parts.values())
    samples = []
    per_part = {}
    for name, m in merged_parts.items():
        for s in m["samples"][:3]:
            samples.append({"part": name, "case": common.abbreviate(s)})
        per_part[name] = {
            "evaluations": m["evaluations"],
            "distinct_nontrivial": len(m["nontrivial_hashes"]),
            "steps": m["steps"],
            "skipped_or_crashed_elsewhere": m["skipped"],
            "classes": dict(sorted(m["classes"].items())),
            "crashes_elsewhere": m["crashes_elsewhere"],
            "known_hits": m["known_hits"],
            "extra": {k: (v if not isinstance(v, list) else v[:5]) for k, v in m["extra"].items()},
            "budget": mod.PARTS[name]["budget"][tier],
            "exhaustive": bool(mod.PARTS[name].get("exhaustive", False)),
        }
    coverage = {
        "evaluations": evaluations,
        "distinct_nontrivial": nontrivial,
        "rule": mod.RULE,
        "samples": samples,
        "parts": per_part,
        "regression_inputs_replayed": n_reg,
        "exhaustive": all(p["exhaustive"] for p in per_part.values()) if per_part else False,
    }
    if note:
        coverage["note"] = note
    common.write_evidence(prop_id, tier, seed, coverage, time.time() - t0, violations,
                          getattr(mod, "ASSUMPTIONS", []))


if __name__ == "__main__":
    try:
        code = main()
    except SystemExit:
        raise
    except BaseException:
        import traceback

        traceback.print_exc()
        code = 2
    sys.stdout.flush()
    sys.exit(code)
