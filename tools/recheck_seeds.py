#!/venv/bin/python
"""Re-run quick checks against every kept seeded change and refresh meta.json["checks_quick"].

    recheck_seeds.py [--props all|group|own] [--only id,id] [--jobs N]

'group' (default) runs the seed's own property plus the properties that share its harness; 'all' runs all twenty checks
(about 4 minutes per seed); 'own' runs only the property the seed was written against.  --jobs runs N seeds at once."""
import argparse
import glob
import json
import os
import subprocess
import sys

VERIF = os.path.dirname(os.path.dirname(os.path.abspath(__file__)))
sys.path.insert(0, os.path.join(VERIF, "tools"))
from keep_seed import GROUPS  # noqa: E402


def one(job):
    d, args = job
    if True:
        sid = os.path.basename(d.rstrip("/"))
        meta = json.load(open(d + "meta.json"))
        prop = meta["breaks_property"]
        props = "all" if args.props == "all" else prop if args.props == "own" else ",".join(sorted(next(g for g in GROUPS if prop in g)))
        r = subprocess.run([sys.executable, os.path.join(VERIF, "tools", "try_patch.py"), d + "patch.diff", "--props", props], capture_output=True, text=True)
        line = [l for l in r.stdout.splitlines() if l.startswith("SUMMARY ")]
        if not line:
            print(sid, "FAILED", r.stderr[-300:], flush=True)
            return
        summ = json.loads(line[0][len("SUMMARY "):])
        fresh = {p: v["verdict"] + (": " + v["first_line"] if v["verdict"] != "quiet" else "") for p, v in summ["checks"].items()}
        meta["checks_quick"] = dict(meta.get("checks_quick", {}), **fresh) if args.props != "all" else fresh
        meta["checks_rechecked_at_verif_commit"] = subprocess.check_output(["git", "-C", VERIF, "rev-parse", "--short", "HEAD"], text=True).strip()
        json.dump(meta, open(d + "meta.json", "w"), indent=1)
        print(sid, {p: v["verdict"] for p, v in summ["checks"].items()}, flush=True)


def main():
    import multiprocessing.pool
    ap = argparse.ArgumentParser()
    ap.add_argument("--props", default="group")
    ap.add_argument("--only")
    ap.add_argument("--jobs", type=int, default=1)
    args = ap.parse_args()
    jobs = []
    for d in sorted(glob.glob(VERIF + "/seeded/*/")):
        sid = os.path.basename(d.rstrip("/"))
        if args.only and sid not in args.only.split(","):
            continue
        jobs.append((d, args))
    with multiprocessing.pool.ThreadPool(args.jobs) as pool:
        pool.map(one, jobs, chunksize=1)


if __name__ == "__main__":
    main()
