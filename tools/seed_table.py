#!/venv/bin/python
"""print a markdown table of the kept seeded changes and which quick checks caught them (from seeded/*/meta.json)"""
import glob, json, os
V = os.path.dirname(os.path.dirname(os.path.abspath(__file__)))
print("| seeded change | breaks | needs | caught by (quick tier) | quiet |")
print("|---|---|---|---|---|")
for f in sorted(glob.glob(V + "/seeded/*/meta.json")):
    m = json.load(open(f))
    caught = [p for p, v in m["checks_quick"].items() if v.startswith("CAUGHT")]
    other = [f"{p}({v.split(':')[0]})" for p, v in m["checks_quick"].items() if not v.startswith("CAUGHT") and not v.startswith("quiet")]
    quiet = [p for p, v in m["checks_quick"].items() if v.startswith("quiet")]
    print(f"| {m['id']} | {m['breaks_property']} | {m['needs_to_manifest'][:110]} | {' '.join(caught)} {' '.join(other)} | {' '.join(quiet)} |")
