#!/venv/bin/python
"""Confirm a sub-agent's seeded change and keep it under /verif/seeded/<id>/.

    keep_seed.py PROP N SLUG "what it needs to manifest" [--props C01,C02|all]

Takes /tmp/seedout/PROP/patch_N.diff + demo_N.py, confirms (in scratch worktrees) that the patch applies, the pinned tests
stay green with it, the demonstration passes without and fails with it, runs the listed checks against the patched tree and
writes seeded/<PROP>-<SLUG>/{patch.diff, demo.py, meta.json}.
"""
import argparse
import json
import os
import shutil
import subprocess
import sys

VERIF = os.path.dirname(os.path.dirname(os.path.abspath(__file__)))
GROUPS = [{"C01", "C02", "C03", "C04", "C08", "C19"}, {"C05", "C09", "C10", "C11", "C13"}, {"C14", "C15", "C16", "C17"}, {"C06"}, {"C07"}, {"C12"}, {"C18"}, {"C20"}]


def main():
    ap = argparse.ArgumentParser()
    ap.add_argument("prop")
    ap.add_argument("n")
    ap.add_argument("slug")
    ap.add_argument("needs")
    ap.add_argument("--props")
    ap.add_argument("--src", default="/tmp/seedout")
    args = ap.parse_args()
    src = os.path.join(args.src, args.prop)
    patch, demo = os.path.join(src, f"patch_{args.n}.diff"), os.path.join(src, f"demo_{args.n}.py")
    props = args.props or ",".join(sorted(next(g for g in GROUPS if args.prop in g)))
    r = subprocess.run([sys.executable, os.path.join(VERIF, "tools", "try_patch.py"), patch, "--demo", demo, "--tests", "--props", props],
                       capture_output=True, text=True)
    print(r.stdout[-3000:])
    line = [l for l in r.stdout.splitlines() if l.startswith("SUMMARY ")]
    if not line:
        print("try_patch failed", r.stderr[-500:])
        return 2
    summ = json.loads(line[0][len("SUMMARY "):])
    ok = summ.get("applies") and "681 passed" in summ.get("tests", "") and summ.get("demo_clean_exit") == 0 and summ.get("demo_patched_exit") not in (0, None)
    if not ok:
        print("NOT CONFIRMED:", summ)
        return 1
    d = os.path.join(VERIF, "seeded", f"{args.prop}-{args.slug}")
    os.makedirs(d, exist_ok=True)
    shutil.copy(patch, os.path.join(d, "patch.diff"))
    shutil.copy(demo, os.path.join(d, "demo.py"))
    meta = {
        "id": f"{args.prop}-{args.slug}",
        "breaks_property": args.prop,
        "origin": "written by an independent sub-agent that saw only the property text and a scratch worktree",
        "needs_to_manifest": args.needs,
        "confirmed": {
            "applies_to": subprocess.check_output(["git", "-C", "/repo", "rev-parse", "--short", "HEAD"], text=True).strip(),
            "unit_tests_with_patch": summ["tests"],
            "demo_exit_clean_tree": summ["demo_clean_exit"],
            "demo_exit_patched_tree": summ["demo_patched_exit"],
            "commands": [f"git -C <scratch worktree> apply patch.diff", "pytest -q --deselect tests/samples/test_all.py::test_all (in the worktree)",
                         "python demo.py (clean worktree and patched worktree)", f"PAMS_REPO=<patched worktree> check.py <P> --tier quick for P in {props}"],
        },
        "checks_quick": {p: v["verdict"] + (": " + v["first_line"] if v["verdict"] != "quiet" else "") for p, v in summ["checks"].items()},
    }
    with open(os.path.join(d, "meta.json"), "w") as f:
        json.dump(meta, f, indent=1)
    print("kept", d, {p: v["verdict"] for p, v in summ["checks"].items()})
    return 0


if __name__ == "__main__":
    sys.exit(main())
