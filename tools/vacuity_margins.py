#!/venv/bin/python
"""print, for every vacuity threshold found in the props modules, the observed class frequency in the current evidence file"""
import json, re, sys, os, glob
V = os.path.dirname(os.path.dirname(os.path.abspath(__file__)))
for f in sorted(glob.glob(V + "/pbt/props/c[0-9][0-9].py")):
    pid = os.path.basename(f)[:-3].upper()
    src = open(f).read()
    ev = json.load(open(f"{V}/evidence/{pid}.json"))["coverage"]["parts"]
    body = src[src.index("def vacuity"):]
    default_part = next(iter(ev))
    for m in re.finditer(r'\((?:"(\w+)", )?"([\w.]+)", ([0-9.]+)\)', body):
        part, cls, lim = m.group(1) or default_part, m.group(2), float(m.group(3))
        if part not in ev:
            part = "sim" if "sim" in ev else ("machine" if "machine" in ev else default_part)
        n = max(1, ev[part]["evaluations"])
        obs = ev[part]["classes"].get(cls, 0) / n
        flag = "  <-- tight" if obs < 2 * lim else ""
        print(f"{pid} {part:8s} {cls:32s} threshold {lim:5.2f} observed {obs:5.2f}{flag}")
