#!/venv/bin/python
"""Evaluate a seeded change against the checks.

    try_patch.py PATCH [--demo DEMO.py] [--props C01,C05|all] [--tests] [--tier quick] [--scale F]

Applies PATCH to a scratch worktree of /repo (HEAD) under /tmp, optionally runs the pinned unit tests there (must stay
green) and the demonstration program (must exit 0 on the clean tree and non-zero on the patched one), then runs the
listed properties' checks with PAMS_REPO pointing at the patched tree.  Prints one line per step and a JSON summary.
The worktree is removed afterwards.
"""
import argparse
import json
import os
import shutil
import subprocess
import sys
import tempfile
import time

VERIF = os.path.dirname(os.path.dirname(os.path.abspath(__file__)))
ALL = [f"C{i:02d}" for i in range(1, 21)]


def sh(cmd, **kw):
    return subprocess.run(cmd, shell=True, capture_output=True, text=True, **kw)


def main():
    ap = argparse.ArgumentParser()
    ap.add_argument("patch")
    ap.add_argument("--demo")
    ap.add_argument("--props", default="all")
    ap.add_argument("--tests", action="store_true")
    ap.add_argument("--tier", default="quick")
    ap.add_argument("--scale", default="1")
    args = ap.parse_args()
    d = tempfile.mkdtemp(prefix="pamsseed_")
    root = d + "/w"
    clean = d + "/c"
    out = {"patch": args.patch}
    try:
        subprocess.check_call(["git", "-C", "/repo", "worktree", "add", "--detach", "-q", root], stdout=subprocess.DEVNULL)
        r = sh(f"git -C {root} apply {os.path.abspath(args.patch)}")
        out["applies"] = r.returncode == 0
        print("applies:", out["applies"], r.stderr.strip()[:300])
        if not out["applies"]:
            return 2
        if args.tests:
            r = sh(f"cd {root} && PYTHONPATH={root} /venv/bin/python -m pytest -q -p no:cacheprovider --timeout=900 "
                   f"--deselect tests/samples/test_all.py::test_all 2>&1 | tail -1")
            out["tests"] = r.stdout.strip()
            print("tests with patch:", out["tests"])
        if args.demo:
            subprocess.check_call(["git", "-C", "/repo", "worktree", "add", "--detach", "-q", clean], stdout=subprocess.DEVNULL)
            rc = sh(f"cd {clean} && PYTHONPATH={clean} /venv/bin/python {os.path.abspath(args.demo)}")
            rp = sh(f"cd {root} && PYTHONPATH={root} /venv/bin/python {os.path.abspath(args.demo)}")
            out["demo_clean_exit"], out["demo_patched_exit"] = rc.returncode, rp.returncode
            print(f"demo: clean exit {rc.returncode} ({rc.stdout.strip()[-80:]!r}), patched exit {rp.returncode} ({rp.stdout.strip()[-160:]!r})")
        props = ALL if args.props == "all" else args.props.split(",")
        out["checks"] = {}
        for p in props:
            t0 = time.time()
            env = dict(os.environ, PAMS_REPO=root, VERIF_SCALE=args.scale)
            r = subprocess.run([sys.executable, os.path.join(VERIF, "check.py"), p, "--tier", args.tier], env=env, capture_output=True, text=True, cwd=VERIF)
            viol = [l for l in r.stdout.splitlines() if l.startswith("VIOLATION")]
            first = (r.stdout.strip().splitlines() or r.stderr.strip().splitlines()[-1:] or [""])[0][:200]
            verdict = "CAUGHT" if r.returncode == 1 and viol else ("quiet" if r.returncode == 0 else f"exit{r.returncode}")
            out["checks"][p] = {"verdict": verdict, "first_line": first, "wall_s": round(time.time() - t0)}
            print(f"{p}: {verdict} ({time.time() - t0:.0f}s) {first if verdict != 'quiet' else ''}", flush=True)
    finally:
        for w in (root, clean):
            subprocess.call(["git", "-C", "/repo", "worktree", "remove", "--force", w], stdout=subprocess.DEVNULL, stderr=subprocess.DEVNULL)
        shutil.rmtree(d, ignore_errors=True)
    print("SUMMARY " + json.dumps(out))
    return 0


if __name__ == "__main__":
    sys.exit(main())
