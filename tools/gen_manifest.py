#!/venv/bin/python
"""(re)generate MANIFEST.json from the property modules that exist; run from /verif."""
import importlib
import json
import os
import sys

VERIF = os.path.dirname(os.path.dirname(os.path.abspath(__file__)))
sys.path.insert(0, VERIF)

TECH = {
    "C01": ("2.C01", "Hypothesis-generated operation histories against one real Market; validity predicates over the returned fills and a reference price rule"),
    "C02": ("2.C02", "Hypothesis histories + reference priority ranking after every op; exhaustive enumeration of a finite order domain; float triples; arrival-permutation metamorphic relation"),
    "C03": ("2.C03", "Hypothesis histories (batch-mode biased, market orders both sides); post-state predicate + differential against a reference greedy walk; whole simulations (session lists, halt rules) with crash attribution and a round-follows-acceptance oracle"),
    "C04": ("2.C04", "Hypothesis histories with illegal operations; per-order accounting model and lifetime model compared after every op; constructor input search; whole-simulation refusal cases (incl. re-submission exactly where an event rewrites pending orders); clock jumps, cancels by equal copy, pre-stamped cancels"),
    "C05": ("2.C05", "Hypothesis-generated simulation configurations with scripted agent programs; fold of fills over endowments compared at every observation point; sample configurations with a non-retaining ledger logger audited at every session end"),
    "C06": ("2.C06", "Hypothesis-generated session lists crossing the 100-step chunks; per-step probes of every getter (future refused, past immutable)"),
    "C07": ("2.C07", "differential re-execution of Hypothesis-generated (configuration, seed) under different PYTHONHASHSEED / global RNG state / process history / python -O / member order of the settings objects; digest equality"),
    "C08": ("2.C08", "Hypothesis histories; reference price/quote/statistics state machine driven by the actual fills, compared after every op"),
    "C09": ("2.C09", "Hypothesis-generated session rules, agent populations and events; trace invariants over consultations, acceptances and fills"),
    "C10": ("2.C10", "Hypothesis-generated simulations with a recording Logger; multiset/order comparison of records against ground truth kept by scripted agents and market getters"),
    "C11": ("2.C11", "Hypothesis-generated simulations; callback multiset/order oracle with holdings snapshots"),
    "C12": ("2.C12", "Hypothesis operation sequences over a real Fundamentals with a remembered-history model; closed form at zero volatility; large-sample moment tests; algebraic probe with a substituted normal source"),
    "C13": ("2.C13", "Hypothesis-generated probe events (hook type x before/after x time list x class/instance filter); expected invocation multiset from ground-truth occurrences"),
    "C14": ("2.C14", "Hypothesis-generated shock placements; closed-form fundamental path at zero volatility, before/after reads otherwise; order-replacement oracle"),
    "C15": ("2.C15", "Hypothesis-generated order prices around the band; clip-then-tick-round oracle with p0 read in a probe hook"),
    "C16": ("2.C16", "Hypothesis-generated price walks against a per-round halt timer model; invariant 'no fill while not running'"),
    "C17": ("2.C17", "Hypothesis-generated component sets with unequal shares; fsum reference of the weighted averages at every time (explicit in-step queries, index of indices, user-defined component classes, late registrations, share changes)"),
    "C18": ("2.C18", "Hypothesis-generated inheritance graphs / group declarations / distribution specs / class names / legacy keys against reference resolvers and support checks; user-registered classes and randomised agent parameters through the runner / the shipped agents"),
    "C19": ("2.C19", "Hypothesis-generated (tick, price, side) inputs; exact rational-arithmetic rounding oracle, also applied to the prices events hand to the market and to index markets"),
    "C20": ("2.C20", "Hypothesis-generated agent parameters x constructed market states; independently evaluated strategy formulas"),
}

TEXT = ("Generated-input search (Hypothesis, 16 processes) against an explicit oracle written from the property statement; "
        "held on every generated case, failures are shrunk and saved as JSON replay files. This is search, not proof: "
        "it bounds the property only over the generated domain stated in the evidence file's rule.")


def main():
    checks = []
    na = []
    props = [json.loads(l) for l in open(os.path.join(VERIF, "properties.jsonl"))]
    for p in props:
        pid = p["id"]
        path = os.path.join(VERIF, "pbt", "props", pid.lower() + ".py")
        if not os.path.exists(path):
            na.append({"property_id": pid, "reason": "check not built yet (work in progress; the design in DESIGN.md covers it)"})
            continue
        ref, tech = TECH[pid]
        checks.append({
            "property_id": pid,
            "quick_cmd": f"/venv/bin/python check.py {pid} --tier quick",
            "thorough_cmd": f"/venv/bin/python check.py {pid} --tier thorough",
            "evidence_file": f"/verif/evidence/{pid}.json",
            "replay_cmd_template": f"/venv/bin/python check.py {pid} --replay {{path}}",
            "engine": "pbt",
            "level_claimed": {"category": "exploration", "text": TEXT, "design_ref": f"DESIGN.md section {ref}"},
            "level_note": "trusted: Hypothesis 6.168, the harness' reference models (pbt/models.py, per-property oracles), "
                          "CPython float arithmetic; pams is imported from /repo's working tree, no hooks inside pams are used",
            "technique": tech,
        })
    manifest = {
        "version": 1,
        "setup_cmd": "/venv/bin/pip install --quiet --no-index --find-links /opt/veriftools/wheels --target /verif/.deps hypothesis atheris || true",
        "hooks": {
            "guard": "PAMS_VERIF",
            "enable": "no hooks inside pams are needed; checks import /repo's working tree and observe through public extension points (class_register, Logger subclass, getters). PAMS_VERIF=1 is exported by the checks but read by nothing in /repo.",
            "baseline_off_cmd": "cd /repo && /venv/bin/python -m pytest -ra -q -p no:cacheprovider --timeout=900 --continue-on-collection-errors",
            "source_commits": [],
            "add_only": True,
        },
        "engines": [{"name": "pbt", "path": "/verif/pbt", "serves_properties": [c["property_id"] for c in checks],
                     "kind_free_text": "property-based testing (Hypothesis) + exhaustive enumeration of small finite domains + coverage-guided fuzzing (atheris) in the thorough tier"}],
        "checks": checks,
        "not_applicable": na,
        "notes": "exit 0 held / 1 VIOLATION / 2 harness error or inconclusive. KNOWN_FINDINGS.json lists the six defects repaired by fix: commits in /repo.",
    }
    with open(os.path.join(VERIF, "MANIFEST.json"), "w") as f:
        json.dump(manifest, f, indent=1)
    print(f"{len(checks)} checks, {len(na)} not applicable")


if __name__ == "__main__":
    main()
