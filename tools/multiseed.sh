#!/bin/bash
# run every quick check at several VERIF_SEED values on the unchanged tree; print anything that is not OK
cd /verif
for sd in "$@"; do
  for i in 01 02 03 04 05 06 07 08 09 10 11 12 13 14 15 16 17 18 19 20; do
    out=$(VERIF_SEED=$sd /venv/bin/python check.py C$i --tier quick 2>&1 | tail -3)
    case "$out" in *"OK property"*) echo "seed $sd C$i ok";; *) echo "seed $sd C$i NOT-OK: $out";; esac
  done
done
