#!/venv/bin/python
"""regenerate the mutant and seeded-change tables inside DESIGN.md (between the HTML comment markers)"""
import glob, json, os, re
V = os.path.dirname(os.path.dirname(os.path.abspath(__file__)))
s = open(V + "/DESIGN.md").read()

res = json.load(open(V + "/mutants/results.json"))
lines = ["| mutant | file | what it does | check | verdict | first line of the report |", "|---|---|---|---|---|---|"]
for r in res:
    lines.append(f"| {r['mutant']} | {r['file'].replace('pams/', '')} | {r['note']} | {r['property']} | {r['verdict']} | {r['first_line'][:90].replace('|', '/')} |")
caught = sum(1 for r in res if r["verdict"].startswith("CAUGHT"))
quiet = sum(1 for r in res if r["verdict"].startswith("QUIET"))
mut = f"{caught} of {len(res) - quiet} (mutant, check) pairs caught at the quick tier; {quiet} control (equivalent rewrite) correctly left quiet.\n\n" + "\n".join(lines)
s = re.sub(r"<!-- MUTANTS-BEGIN -->.*?<!-- MUTANTS-END -->", "<!-- MUTANTS-BEGIN -->\n" + mut + "\n<!-- MUTANTS-END -->", s, flags=re.S)

lines = ["| seeded change | breaks | needs to manifest | caught by (quick tier) | quiet |", "|---|---|---|---|---|"]
n = tot = 0
for f in sorted(glob.glob(V + "/seeded/*/meta.json")):
    m = json.load(open(f))
    caught = [p for p, v in m["checks_quick"].items() if v.startswith("CAUGHT")]
    other = [f"{p}({v.split(':')[0]})" for p, v in m["checks_quick"].items() if not v.startswith(("CAUGHT", "quiet"))]
    quiet_ = [p for p, v in m["checks_quick"].items() if v.startswith("quiet")]
    tot += 1
    n += m["breaks_property"] in caught
    lines.append(f"| {m['id']} | {m['breaks_property']} | {m['needs_to_manifest'][:150].replace('|', '/')} | {' '.join(caught + other)} | {' '.join(quiet_)} |")
seed = f"{n} of {tot} seeded changes are caught by the quick check of the property they were written to break.\n\n" + "\n".join(lines)
s = re.sub(r"<!-- SEEDS-BEGIN -->.*?<!-- SEEDS-END -->", "<!-- SEEDS-BEGIN -->\n" + seed + "\n<!-- SEEDS-END -->", s, flags=re.S)
# budgets per part, read from the property modules
import importlib, sys
sys.path.insert(0, V)
lines = ["| property | part | quick budget | thorough budget |", "|---|---|---|---|"]
for i in range(1, 21):
    mod = importlib.import_module(f"pbt.props.c{i:02d}")
    for name, part in mod.PARTS.items():
        b = part["budget"]
        lines.append(f"| C{i:02d} | {name}{' (exhaustive)' if part.get('exhaustive') else ''} | {b.get('quick') or '–'} | {b.get('thorough') or '–'} |")
s = re.sub(r"<!-- BUDGETS-BEGIN -->.*?<!-- BUDGETS-END -->", "<!-- BUDGETS-BEGIN -->\n" + "\n".join(lines) + "\n<!-- BUDGETS-END -->", s, flags=re.S)
open(V + "/DESIGN.md", "w").write(s)
print("mutants", caught, "seeds", n, tot)
